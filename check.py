#!/venv/bin/python
"""Driver for the deterministic-simulation checks of heuer/segno.

  check.py <C03|C08|C12|C14|C15> [--tier quick|thorough] [--budget-s N] [--runs N] [--jobs N]
  check.py <id> --replay replays/<file>.json
  check.py selftest [determinism]

Exit 0: property held on everything explored (KNOWN-FINDING lines allowed).
Exit 1: at least one line `VIOLATION property=<id> replay=<path>`.
Exit 2: harness error (worker died, wall-clock cap, ...) -- never conflated with a violation.
"""
import argparse
import importlib
import os
import sys
import time

# argparse wraps usage/error texts to the terminal width: pin it, so that results never depend on where the check runs
os.environ['COLUMNS'] = '80'
os.environ['LINES'] = '24'
if os.environ.get('PYTHONHASHSEED') is None:
    os.environ['PYTHONHASHSEED'] = '0'
    os.execv(sys.executable, [sys.executable] + sys.argv)

HERE = os.path.dirname(os.path.abspath(__file__))
sys.path.insert(0, HERE)
from sim import core  # noqa: E402

PROPS = ('C03', 'C08', 'C12', 'C14', 'C15')
COMPONENTS = {
    'C03': {'real': ['segno.make', 'segno.encoder', 'segno.consts'], 'stub': ['sim.channel (medium)', 'sim.refqr (receiver/oracle)']},
    'C08': {'real': ['segno.make_sequence', 'segno.encoder', 'segno.consts'],
            'stub': ['sim.channel (medium)', 'sim.refqr + reference reassembler (receiver/oracle)']},
    'C12': {'real': ['segno.make*', 'segno.QRCode/QRCodeSequence.save/terminal/*_data_uri/svg_inline', 'segno.writers', 'segno.cli.main'],
            'stub': ['SimFS (writers.open, gzip.open)', 'SimClock (writers.time, gzip time)', 'SimProc (argv, stdout, stderr, exit status)', 'SimStream sinks']},
    'C14': {'real': ['segno.cli.main', 'segno.make*', 'segno.writers'],
            'stub': ['SimFS with fault plans', 'SimProc', 'step clock (sys.settrace line events)']},
    'C15': {'real': ['all of segno.* executed in real threads'],
            'stub': ['baton scheduler (sys.settrace / sys.monitoring pre-emption)', 'SimFS', 'SimClock', 'SimProc', 'SimStream']},
}


def load(prop):
    return importlib.import_module('sim.' + prop.lower())


def _exec_index(mod, seed, tier, i):
    sc = mod.gen_scenario(seed, i, tier)
    return mod.execute(sc)


def same_clause_fails(mod, clause, timeout, budget_s=90.0):
    """Predicate for the minimiser; after budget_s seconds of shrinking it answers False (stop shrinking)."""
    deadline = time.time() + budget_s

    def fails(sc):
        if time.time() > deadline:
            return False
        try:
            r = core.run_forked(mod.execute, (sc,), timeout=timeout)
        except core.HarnessError:
            return False
        return any(v['clause'] == clause and mod.known(r.get('scenario', sc), v) is None for v in r['violations'])
    return fails


def run_check(prop, tier, seed, budget_s, n_runs, jobs):
    mod = load(prop)
    t0 = time.time()
    params = mod.tier_params(tier) if hasattr(mod, 'tier_params') else {}
    if n_runs is None:
        n_runs = params.get('runs')
    if budget_s is None:
        budget_s = params.get('budget_s')
    run_timeout = params.get('run_timeout', 300.0)
    wall_cap = params.get('wall_cap', (budget_s or 600) * 3 + 600)
    min_runs = params.get('min_runs', 1)
    print('check %s tier=%s VERIF_SEED=%d runs=%s budget_s=%s jobs=%d repo=%s' % (prop, tier, seed, n_runs, budget_s, jobs, core.REPO))
    sys.stdout.flush()
    def is_bad(r):
        return any(mod.known(r.get('scenario'), v) is None for v in r.get('violations', []))
    results, errors = core.run_batch(lambda i: _exec_index(mod, seed, tier, i), n_runs=n_runs, budget_s=budget_s,
                                     jobs=jobs, run_timeout=run_timeout, wall_cap=wall_cap, min_runs=min_runs,
                                     is_bad=is_bad, stop_after_bad=params.get('stop_after_bad', 6))
    counters = {}
    digests = set()
    nontrivial_digests = set()
    samples = []
    viols = []
    sets = {}
    for i in sorted(results):
        r = results[i]
        core.merge_counters(counters, r.get('counters', {}))
        for name, items in (r.get('sets') or {}).items():
            sets.setdefault(name, set()).update(items)
        d = r.get('digest')
        digests.add(d)
        if r.get('nontrivial'):
            nontrivial_digests.add(d)
            if len(samples) < 3 and r.get('sample') is not None:
                samples.append({'run': i, 'seed': core.derive_seed(seed, prop, i), **r['sample']})
        for v in r.get('violations', []):
            viols.append((i, r.get('scenario'), v))
    if not samples:
        for i in sorted(results):
            if results[i].get('sample') is not None:
                samples.append({'run': i, **results[i]['sample']})
                break
    # ---- classify violations
    known_lines = {}
    new = []
    for i, sc, v in viols:
        k = mod.known(sc, v)
        if k is not None:
            known_lines.setdefault(k['id'], k)
            k_count = counters.setdefault('known_findings_matched', {})
            k_count[k['id']] = k_count.get(k['id'], 0) + 1
        else:
            new.append((i, sc, v))
    for k in known_lines.values():
        print('KNOWN-FINDING: property=%s %s' % (prop, k['what']))
    reported = 0
    seen_sig = set()
    replay_paths = []
    for i, sc, v in new:
        sig = (v['clause'], mod.signature(sc, v) if hasattr(mod, 'signature') else v['msg'][:60])
        if sig in seen_sig or reported >= 5:
            continue
        seen_sig.add(sig)
        reported += 1
        fails = same_clause_fails(mod, v['clause'], run_timeout, 90.0 if tier == 'quick' else 600.0)
        small = sc
        minimised = False
        try:
            if fails(sc):
                small = mod.minimise(sc, v, fails)
                minimised = True
        except Exception as ex:  # minimiser trouble must not hide the violation
            print('note: minimiser failed (%s: %s); raw scenario kept' % (type(ex).__name__, ex))
            small = sc
        # final replay of the minimised record in a fresh child: it must reproduce
        try:
            rr = core.run_forked(mod.execute, (small,), timeout=run_timeout)
            vv = [x for x in rr['violations'] if x['clause'] == v['clause']]
        except core.HarnessError:
            vv = []
        if not vv:
            small, vv, minimised = sc, [v], False
            rr = {'digest': results[i].get('digest')}
        rec = {'property': prop, 'clause': v['clause'], 'seed': core.derive_seed(seed, prop, i), 'batch_seed': seed,
               'run_index': i, 'tier': tier, 'minimised': minimised, 'scenario': small,
               'expect': {'digest': rr.get('digest'), 'msg': vv[0]['msg']}}
        path = core.write_replay(prop, '%d-%d' % (rec['seed'], reported), rec)
        replay_paths.append(path)
        print('  %s: %s' % (v['clause'], vv[0]['msg']))
        print('VIOLATION property=%s replay=%s' % (prop, path))
    for i, text in errors[:10]:
        print('HARNESS-ERROR run=%s %s' % (i, text.strip().splitlines()[-1] if text.strip() else text))
        if os.environ.get('VERIF_DEBUG'):
            print(text)
    wall = time.time() - t0
    n = len(results)
    coverage = {
        'evaluations': n,
        'distinct_nontrivial': len(nontrivial_digests),
        'rule': mod.coverage_rule(),
        'samples': samples,
        'distinct_digests': len(digests),
        'runs_per_hour': int(n / wall * 3600) if wall > 0 else 0,
        'seeds_per_hour': int(n / wall * 3600) if wall > 0 else 0,
        'counters': counters,
        'components': COMPONENTS[prop],
        'harness_errors': len(errors),
        'new_violation_runs': len(new),
        'jobs': jobs,
    }
    for name, items in sets.items():
        coverage['distinct_' + name] = len(items)
        coverage[name + '_sample'] = sorted(items)[:40]
    if hasattr(mod, 'finish_coverage'):
        mod.finish_coverage(coverage, counters)
    core.write_evidence(prop, tier, seed, coverage, wall, len(new), mod.ASSUMPTIONS)
    print('%s: %d runs, %d distinct non-trivial, %d new violation(s), %d known-finding match(es), %d harness error(s), %.1fs'
          % (prop, n, len(nontrivial_digests), len(new), sum(counters.get('known_findings_matched', {}).values()), len(errors), wall))
    if new:
        return 1
    if errors or n == 0:
        return 2
    return 0


def run_replay(prop, path):
    mod = load(prop)
    rec = core.load_json(path)
    sc = rec['scenario']
    r = core.run_forked(mod.execute, (sc,), timeout=600)
    hits = [v for v in r['violations'] if v['clause'] == rec['clause']]
    print('replay %s: clause %s, digest %s (expected %s)' % (path, rec['clause'], r.get('digest'), rec['expect'].get('digest')))
    for v in r['violations']:
        print('  %s: %s' % (v['clause'], v['msg']))
    if hits:
        k = mod.known(r.get('scenario', sc), hits[0])
        if k is not None:
            print('KNOWN-FINDING: property=%s %s' % (prop, k['what']))
            return 0
        print('VIOLATION property=%s replay=%s' % (prop, path))
        return 1
    print('replay did not reproduce the violation on this tree')
    return 0


def main():
    ap = argparse.ArgumentParser()
    ap.add_argument('what')
    ap.add_argument('sub', nargs='?')
    ap.add_argument('--tier', default=os.environ.get('VERIF_TIER') or 'quick', choices=('quick', 'thorough'))
    ap.add_argument('--budget-s', type=float, default=None)
    ap.add_argument('--runs', type=int, default=None)
    ap.add_argument('--jobs', type=int, default=int(os.environ.get('VERIF_JOBS') or min(16, os.cpu_count() or 1)))
    ap.add_argument('--replay', default=None)
    args = ap.parse_args()
    seed = int(os.environ.get('VERIF_SEED') or core.DEFAULT_SEED)
    if args.what == 'selftest':
        from sim import selftest
        return selftest.main(args.sub, seed, args.jobs, args.runs)
    prop = args.what.upper()
    if prop not in PROPS:
        ap.error('unknown property %s (claimed: %s)' % (prop, ', '.join(PROPS)))
    if args.replay:
        return run_replay(prop, args.replay)
    return run_check(prop, args.tier, seed, args.budget_s, args.runs, args.jobs)


if __name__ == '__main__':
    try:
        code = main()
    except core.HarnessError as ex:
        print('HARNESS-ERROR %s' % ex)
        code = 2
    sys.stdout.flush()
    sys.exit(code)
