print("placeholder")
