#!/bin/bash
# usage: confirm_mutant.sh <worktree-with-change-applied> <seeded-id> <property>
# Confirms: suite passes with the change, demo exits 1 with / 0 without. Copies artefacts to /verif/seeded/<id>/.
set -u
W=$1; ID=$2; PROP=$3
D=/verif/seeded/$ID
mkdir -p $D
git -C $W diff -- segno > $D/patch.diff
cp $W/_mutant/demo.py $D/demo.py
cp $W/_mutant/notes.txt $D/notes.txt 2>/dev/null
( cd $W && timeout 1200 /venv/bin/python -m pytest -q -p no:cacheprovider --timeout=900 2>&1 | tail -1 ) > $D/.suite.txt
timeout 600 /venv/bin/python $D/demo.py $W > $D/.demo_with.txt 2>&1; WITH=$?
git -C $W stash -q
timeout 600 /venv/bin/python $D/demo.py $W > $D/.demo_without.txt 2>&1; WITHOUT=$?
git -C $W stash pop -q
echo "suite: $(cat $D/.suite.txt)"; echo "demo with change: exit $WITH; without: exit $WITHOUT"
