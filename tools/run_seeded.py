#!/venv/bin/python
"""Sensitivity suite: runs the named check (quick tier) against every seeded change in /verif/seeded/<id>/.

For each change a scratch worktree of /repo's HEAD is created under /tmp, patch.diff is applied there,
the check runs with SEGNO_REPO pointing at it (evidence and replay files go into the scratch tree, never into /verif) (identical to `git -C /repo apply` + run + `git checkout`,
without touching /repo), and the worktree is removed. Result goes to meta.json["last_run"].
usage: run_seeded.py [id ...]      (SEEDED_VERIF_SEED=<n> runs the checks with another batch seed; meta.json is then not updated)
"""
import json, os, subprocess, sys, time, shutil

SEEDED = '/verif/seeded'
ids = sys.argv[1:] or sorted(d for d in os.listdir(SEEDED) if os.path.isdir(os.path.join(SEEDED, d)))
rc = 0
for sid in ids:
    d = os.path.join(SEEDED, sid)
    meta = json.load(open(os.path.join(d, 'meta.json')))
    wt = '/tmp/seeded-%s-%d' % (sid, os.getpid())
    subprocess.run(['git', '-C', '/repo', 'worktree', 'add', '-q', '--detach', wt, 'HEAD'], check=True)
    try:
        subprocess.run(['git', '-C', wt, 'apply', os.path.join(d, 'patch.diff')], check=True)
        results = {}
        for prop in meta['expected_caught_by']:
            t0 = time.time()
            env = dict(os.environ, SEGNO_REPO=wt, **({'VERIF_SEED': os.environ['SEEDED_VERIF_SEED']} if os.environ.get('SEEDED_VERIF_SEED') else {}), VERIF_EVIDENCE_DIR=wt + '/_evidence', VERIF_REPLAY_DIR=wt + '/_replays')
            p = subprocess.run(['/venv/bin/python', '/verif/check.py', prop, '--tier', 'quick'], env=env, stdout=subprocess.PIPE, stderr=subprocess.STDOUT)
            out = p.stdout.decode(errors='replace')
            clauses = sorted(set(ln.strip().split(':')[0] for ln in out.splitlines() if ln.startswith('  c')))
            results[prop] = {'exit': p.returncode, 'violation_lines': out.count('VIOLATION property='), 'clauses': clauses, 'wall_s': round(time.time() - t0, 1)}
            print('%-40s %s exit=%d clauses=%s %.0fs' % (sid, prop, p.returncode, clauses, time.time() - t0))
            if p.returncode != 1:
                rc = 1
        meta['last_run'] = {'repo_head': subprocess.run(['git', '-C', '/repo', 'rev-parse', '--short', 'HEAD'], stdout=subprocess.PIPE).stdout.decode().strip(),
                            'results': results}
        if not os.environ.get('SEEDED_VERIF_SEED'):
            json.dump(meta, open(os.path.join(d, 'meta.json'), 'w'), indent=1)
    finally:
        subprocess.run(['git', '-C', '/repo', 'worktree', 'remove', '--force', wt])
        shutil.rmtree(wt, ignore_errors=True)
sys.exit(rc)
