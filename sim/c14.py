"""C14 -- arguments are honoured or refused with ValueError; nothing else escapes.

Decided by simulation:
  c14.cli.status0  -- the simulated process exits 0 only after the requested output is completely
                      written: every open/write/close (and stdout write) of a sampled CLI invocation is
                      a fault point; all points x errno classes are enumerated when there are <= 64
  c14.cli.refusal  -- a refusal raised while creating the symbol: status 1, library message, no traceback
  c14.liveness     -- every operation returns or raises within a step budget on the simulator's step clock
Carried by the same workload as per-operation invariants (input-sampled, said so in the evidence):
  c14.exc, c14.excluded, c14.ser, c14.spelling, c14.valid
"""
import codecs
import io
import os

from . import core, gen, opts, ops, refqr, sched, world, known as known_mod
from .c12 import blank

PROP = 'C14'
ASSUMPTIONS = [
    'the reference for a faulted CLI invocation is the fault-free run of the same argv in the same simulated world',
    'a short write at the raw layer below the buffered writer is legal and must not make the invocation fail or lose data',
    'documented argument domains: content str/bytes/int; version None/int/str; error None/str; mode None/str; mask None/int/numeric str; '
    'encoding None/str; eci, boost_error bool; micro None/bool; symbol_count None/int (segment lists are not covered by the statement)',
    'colour checks apply to the serialisers that take web colours (svg, png, eps, pdf, pam, ppm, xpm); LaTeX colour names and TXT characters are free text; '
    'a non-opaque alpha colour given to a writer without alpha support (eps, pdf, ppm, xpm) counts as malformed for that writer and must be refused',
    'clauses c14.exc / c14.excluded / c14.ser / c14.spelling / c14.valid are input-sampled invariants; the simulator adds nothing to them',
    'what a refused or failed call leaves on disk is not an oracle (the statement is silent about it)',
]
STEP_BUDGET = {'quick': 20_000_000, 'thorough': 400_000_000}
WRITE_ERRNOS = ('ENOSPC', 'EIO')
OPEN_ERRNOS = ('EACCES', 'ENOENT', 'EROFS')
CLOSE_ERRNOS = ('EIO', 'EDQUOT')
COLOR_KINDS = ('svg', 'png', 'eps', 'pdf', 'pam', 'ppm', 'xpm')


def _viol(clause, msg, **detail):
    return {'clause': clause, 'msg': msg, 'detail': detail}


# ----------------------------------------------------------------------------------------
# argument domains
VERSIONS = [None, None, None, 1, 2, 5, 10, 27, 40, 41, 100, 0, -1, 'M1', 'm2', 'M3', 'M4', 'M5', '1', '40', '41', '0', 'x', '', ' 3', '07']
ERRORS = [None, None, 'L', 'M', 'Q', 'H', 'l', 'h', 'x', '', '-', 'LL']
MODES = [None, None, None, 'numeric', 'alphanumeric', 'byte', 'kanji', 'hanzi', 'NUMERIC', 'Byte', 'foo', '']
MASKS = [None, None, None, -1, 0, 1, 3, 4, 7, 8, 9, '0', '7', '8', 'x', '']
ENCODINGS = [None, None, None, None, None, None, 'utf-8', 'latin1', 'shift_jis', 'ascii', 'utf-16', 'cp1252', 'big5', 'gb2312', 'no-such-codec', '',
             'UTF8', 'latin_1', 'iso8859-15', 'cp437', 'koi8-r', 'euc-jp', 'utf-32', 'ISO-8859-1', 'Shift_JIS']
SYMCOUNTS = [None, -1, 0, 1, 2, 3, 16, 17, 100]


def gen_content(rng):
    r = rng.random()
    if r < 0.08:
        return rng.choice(('', b'', 0, -5, ' ', '\x00'))
    if r < 0.2:
        return int(gen.text(rng, 'numeric', rng.randint(1, 40)).lstrip('0') or '0') * rng.choice((1, 1, 1, -1))
    mode = rng.choice(('numeric', 'alphanumeric', 'byte', 'byte', 'kanji', 'hanzi', 'uni', 'near'))
    n = max(1, int(rng.paretovariate(0.8))) if rng.random() < 0.8 else rng.randint(1, 200)
    n = min(n, 400)
    if mode == 'near':
        r = rng.random()
        c = gen.near_text(rng, n) if r < 0.5 else gen.runs_text(rng, n) if r < 0.8 else gen.kanji_lookalike(rng, max(1, n // 2)).decode('latin1')
        return c.encode('latin1') if rng.random() < 0.25 else c
    if mode == 'uni':
        return ''.join(rng.choice(gen.UNI + gen.ASCII) for _ in range(n))
    c = gen.text(rng, mode, n)
    if mode in ('kanji', 'hanzi') and rng.random() < 0.3:
        c = c.encode('shift_jis' if mode == 'kanji' else 'gb2312')
        if rng.random() < 0.5:
            c = c[:-1]   # odd number of bytes
    return c


def gen_call(rng):
    fn = rng.weighted([('make', 55), ('make_qr', 12), ('make_micro', 13), ('make_sequence', 20)])
    kw = {}
    if rng.random() < 0.6:
        kw['version'] = rng.choice(VERSIONS)
    if rng.random() < 0.5:
        kw['error'] = rng.choice(ERRORS)
    if rng.random() < 0.4:
        kw['mode'] = rng.choice(MODES)
    if rng.random() < 0.4:
        kw['mask'] = rng.choice(MASKS)
    if rng.random() < 0.3:
        kw['encoding'] = rng.choice(ENCODINGS)
    if rng.random() < 0.3:
        kw['boost_error'] = rng.random() < 0.5
    if fn in ('make', 'make_qr') and rng.random() < 0.25:
        kw['eci'] = rng.random() < 0.7
    if fn == 'make' and rng.random() < 0.5:
        kw['micro'] = rng.choice((None, True, False))
    if fn == 'make_sequence' and rng.random() < 0.7:
        kw['symbol_count'] = rng.choice(SYMCOUNTS)
    return {'fn': fn, 'content': core.enc(gen_content(rng)), 'kw': core.enc(kw)}


def excluded_calls():
    """Combinations the documentation excludes; each must be refused whatever the content."""
    out = []
    for v in ('M1', 'M2', 'M3', 'M4', 'm4'):
        out.append(('make', '1', {'version': v, 'error': 'H'}, 'level H with Micro QR'))
        out.append(('make', '1', {'version': v, 'eci': True}, 'ECI with Micro QR'))
        out.append(('make', '中', {'version': v, 'mode': 'hanzi'}, 'hanzi with Micro QR'))
        out.append(('make_sequence', '1', {'version': v}, 'Structured Append with Micro QR'))
        out.append(('make_qr', '1', {'version': v}, 'Micro version in make_qr'))
    out += [('make', '1', {'micro': True, 'error': 'H'}, 'level H with Micro QR'),
            ('make_micro', '1', {'error': 'H'}, 'level H with Micro QR'),
            ('make', '1', {'micro': True, 'eci': True}, 'ECI with Micro QR'),
            ('make', '中', {'micro': True, 'mode': 'hanzi'}, 'hanzi with Micro QR'),
            ('make_micro', '中', {'mode': 'hanzi'}, 'hanzi with Micro QR'),
            ('make', 'A', {'version': 'M1', 'mode': 'alphanumeric'}, 'mode not available in version'),
            ('make', 'a', {'version': 'M1', 'mode': 'byte'}, 'mode not available in version'),
            ('make', 'a', {'version': 'M2', 'mode': 'byte'}, 'mode not available in version'),
            ('make', '点', {'version': 'M2', 'mode': 'kanji'}, 'mode not available in version'),
            ('make', '点', {'version': 'M1', 'mode': 'kanji'}, 'mode not available in version'),
            ('make', '1', {'mask': 8}, 'mask out of range'), ('make', '1', {'mask': -1}, 'mask out of range'),
            ('make_qr', '1', {'mask': 8}, 'mask out of range'), ('make_qr', '1', {'mask': '8'}, 'mask out of range'),
            ('make_micro', '1', {'mask': 4}, 'mask out of range'), ('make', '1', {'micro': True, 'mask': 4}, 'mask out of range'),
            ('make', '1', {'version': 'M3', 'mask': 4}, 'mask out of range'),
            ('make_sequence', '123', {'version': 1, 'mask': 8}, 'mask out of range'),
            ('make', '1', {'version': 'M5'}, 'version outside M1-M4/1-40'), ('make', '1', {'version': 0}, 'version outside M1-M4/1-40'),
            ('make', '1', {'version': 41}, 'version outside M1-M4/1-40'), ('make', '1', {'version': -1}, 'version outside M1-M4/1-40'),
            ('make', '1', {'version': '41'}, 'version outside M1-M4/1-40'), ('make_qr', '1', {'version': 41}, 'version outside M1-M4/1-40'),
            ('make_micro', '1', {'version': 1}, 'QR version in make_micro'), ('make_micro', '1', {'version': 'M5'}, 'version outside M1-M4/1-40'),
            ('make_sequence', '1', {'version': 41}, 'version outside M1-M4/1-40'),
            ('make_sequence', '12345', {'symbol_count': 0}, 'symbol_count outside 1-16'),
            ('make_sequence', '12345' * 5, {'symbol_count': 17}, 'symbol_count outside 1-16'),
            ('make_sequence', '12345', {'symbol_count': -1}, 'symbol_count outside 1-16'),
            ('make_sequence', '12345' * 5, {'symbol_count': 17, 'version': 1}, 'symbol_count outside 1-16'),
            ('make_sequence', '12345' * 5, {'symbol_count': 0, 'version': '2'}, 'symbol_count outside 1-16'),
            ('make_sequence', '12345' * 5, {'symbol_count': -1, 'version': 3}, 'symbol_count outside 1-16'),
            ('make_sequence', '12345' * 5, {'symbol_count': 100, 'version': 40}, 'symbol_count outside 1-16')]
    return out


def _norm_version(v):
    """/verif's reading of the documented version domain: returns int 1..40, 'M1'..'M4', None (not given) or 'invalid'."""
    if v is None:
        return None
    if isinstance(v, bool):
        return 'unknown'
    try:
        n = int(v)
        return n if 1 <= n <= 40 else 'invalid'
    except (ValueError, TypeError):
        pass
    if isinstance(v, str) and v.upper() in ('M1', 'M2', 'M3', 'M4'):
        return v.upper()
    return 'invalid'


def must_refuse(fn, kw):
    """Reason why the documentation excludes this call whatever the content is, or None."""
    v = _norm_version(kw.get('version'))
    if v == 'unknown':
        return None
    if v == 'invalid':
        return 'version outside M1-M4/1-40'
    micro_v = isinstance(v, str)
    micro = micro_v or fn == 'make_micro' or kw.get('micro') is True
    sc_ = kw.get('symbol_count')
    if fn == 'make_sequence':
        if sc_ is not None and not isinstance(sc_, bool) and not 1 <= sc_ <= 16:
            return 'symbol_count outside 1-16'
        if micro_v:
            return 'Structured Append with Micro QR'
    if fn == 'make_qr' and micro_v:
        return 'Micro version in make_qr'
    if fn == 'make_micro' and isinstance(v, int):
        return 'QR version in make_micro'
    if fn == 'make' and kw.get('micro') is True and isinstance(v, int):
        return 'QR version with micro=True'
    if fn == 'make' and kw.get('micro') is False and micro_v:
        return 'Micro version with micro=False'
    m = kw.get('mask')
    if m is not None and not isinstance(m, bool):
        try:
            mi = int(m)
        except (ValueError, TypeError):
            return 'mask is not a number'
        if not 0 <= mi <= 7 or (micro and mi > 3):
            return 'mask out of range'
    e = kw.get('error')
    if isinstance(e, str) and e.upper() == 'H' and micro:
        return 'level H with Micro QR'
    if isinstance(e, str) and e.upper() not in ('L', 'M', 'Q', 'H'):
        return 'unknown error level'
    if kw.get('eci') is True and micro:
        return 'ECI with Micro QR'
    mode = kw.get('mode')
    if isinstance(mode, str):
        mo = mode.lower()
        if mo not in ('numeric', 'alphanumeric', 'byte', 'kanji', 'hanzi'):
            return 'unknown mode'
        if mo == 'hanzi' and micro:
            return 'hanzi with Micro QR'
        if micro_v and ((v == 'M1' and mo != 'numeric') or (v == 'M2' and mo not in ('numeric', 'alphanumeric'))):
            return 'mode not available in version'
    return None


SPELLINGS = [
    # (canonical kw, alternative kw)
    ({'version': 'M3'}, {'version': 'm3'}), ({'version': 'M4'}, {'version': 'm4'}), ({'version': 5}, {'version': '5'}),
    ({'version': 12}, {'version': '12'}), ({'error': 'L'}, {'error': 'l'}), ({'error': 'M'}, {'error': 'm'}),
    ({'error': 'Q'}, {'error': 'q'}), ({'error': 'H'}, {'error': 'h'}), ({'mode': 'byte'}, {'mode': 'BYTE'}),
    ({'mode': 'alphanumeric'}, {'mode': 'Alphanumeric'}), ({'mode': 'numeric'}, {'mode': 'NUMERIC'}),
    ({'mode': 'kanji'}, {'mode': 'Kanji'}), ({'mode': 'hanzi'}, {'mode': 'HANZI'}), ({'mask': 3}, {'mask': '3'}),
    ({'mask': 0}, {'mask': '0'}), ({'mask': 7}, {'mask': '7'}),
]
BAD_SER = [({'scale': 0}, 'all'), ({'scale': -1}, 'all'), ({'scale': -0.5}, 'all'), ({'scale': 0.0}, 'all'),
           ({'border': -1}, 'all'), ({'border': 1.5}, 'all'), ({'border': -4}, 'all'),
           ({'dark': '#12'}, 'color'), ({'dark': 'nocolor'}, 'color'), ({'dark': ''}, 'color'), ({'light': '#12345'}, 'color'),
           ({'light': '#gggggg'}, 'color'), ({'dark': '#1234567'}, 'color'), ({'dark': (1, 2)}, 'color'),
           ({'dark': (1, 2, 3, 4, 5)}, 'color'), ({'dark': (300, 0, 0)}, 'color'), ({'light': (-1, 0, 0)}, 'color'),
           ({'dark': '#'}, 'color'), ({'light': 'rgb(1,2,3)'}, 'color'),
           ({'dark': '#36c\n'}, 'color'), ({'light': '3366cc\n'}, 'color'), ({'dark': ' red'}, 'color'), ({'dark': '#36c '}, 'color'),
           ({'light': 'red\n'}, 'color'), ({'dark': '#3366CC80\n'}, 'color'),
           # a colour with a non-opaque alpha channel handed to a writer without alpha support is neither honoured nor
           # well-formed for that writer: it must be refused, not silently flattened ("honoured or refused")
           ({'dark': '#11223380'}, 'noalpha'), ({'light': '#1238'}, 'noalpha'), ({'dark': (10, 20, 30, 128)}, 'noalpha'),
           ({'light': (10, 20, 30, 0.5)}, 'noalpha'),
           # float alpha outside 0.0..1.0 / float component > 255: malformed although the tuple compares (and hashes) equal to a
           # well-formed tuple of ints - see _twin() below
           ({'dark': (0, 0, 0, 2.0)}, 'color'), ({'light': (10, 20, 30, 255.0)}, 'color'), ({'dark': (0, 0, 0, 128.0)}, 'color'),
           ({'light': (0, 0, 0, 1.5)}, 'color'), ({'dark': (256.0, 0, 0)}, 'color')]
NOALPHA_KINDS = ('eps', 'pdf', 'ppm', 'xpm')


def _twin(bad):
    """A *near twin* of a malformed serialiser argument: a value that compares equal, hashes equal or normalises to the same
    thing (int for an integral float, the stripped / other-case string) and is usually well-formed. Issued right before the
    malformed call in half of the c14.ser checks: a refusal must not depend on what was accepted before (memoised validation
    keyed by ==/hash, normalisation caches).  Its own outcome is not judged."""
    (k, v), = bad.items()
    if isinstance(v, tuple) and any(isinstance(x, float) and x == int(x) for x in v):
        return {k: tuple(int(x) if isinstance(x, float) and x == int(x) else x for x in v)}
    if isinstance(v, tuple) and len(v) == 4 and isinstance(v[3], float):
        return {k: v[:3] + (int(v[3]),)}
    if isinstance(v, str) and v.strip() and v.strip() != v:
        return {k: v.strip()}
    if isinstance(v, str) and v.upper() != v:
        return {k: v.upper()}
    if isinstance(v, float) and v == int(v):
        return {k: int(v)}
    return None


# ----------------------------------------------------------------------------------------
def gen_scenario(batch_seed, i, tier):
    seed = core.derive_seed(batch_seed, PROP, i)
    rng = core.R(seed)
    mode = rng.weighted([('cli_faults', 40), ('cli_refusal', 15), ('calls', 30), ('liveness', 15)])
    sc = {'prop': PROP, 'seed': seed, 'index': i, 'tier': tier, 'mode': mode, 'bufsize': rng.choice((1, 16, 64, 512, 8192)),
          'clock': {'t0': float(rng.randint(10 ** 6, 2 * 10 ** 9)), 'tz': rng.choice((0, -19800, 28800)), 'mode': 'frozen'}}
    if mode == 'cli_faults':
        kind = rng.choice(opts.KINDS)
        is_seq = rng.random() < 0.2
        content, mkw = opts.gen_symbol(rng, cli=True, seq=is_seq, maxlen=40 if not is_seq else 60)
        skw = opts.gen_ser_opts(rng, kind, cli=True)
        argv = opts.make_argv(mkw, seq=is_seq) + opts.ser_argv(skw)
        r = rng.random()
        if r < 0.78:
            argv.append('--output=out/c14-%d.%s' % (i, kind if rng.random() < 0.8 else kind.upper()))
        elif r < 0.86:
            argv.append('--output=out/c14-%d.%s' % (i, rng.choice(('svgz', 'svgz', 'SVGZ', 'SvgZ'))))
        else:
            if rng.random() < 0.5:
                argv.append('--compact')
        argv.append(content)
        argv = opts.stylize(argv, rng.choice((0, rng.getrandbits(32))))
        sc.update(argv=core.enc(argv), points=None, sample_seed=rng.getrandbits(48), max_points=64 if tier == 'quick' else 256)
    elif mode == 'cli_refusal':
        content, mkw = opts.gen_symbol(rng, cli=True, seq=rng.random() < 0.2, maxlen=30)
        is_seq = 'symbol_count' in mkw or ('version' in mkw and 'micro' not in mkw and rng.random() < 0.0)
        bad = rng.choice(({'version': 'M5'}, {'version': 41}, {'version': 0}, {'mask': 8}, {'mask': -1}, {'mode': 'kanji'}, {'mode': 'hanzi'},
                          {'mode': 'numeric'}, {'version': 'M1', 'error': 'H'}, {'version': 'M2', 'mode': 'byte'}, {'version': 1, 'micro': True},
                          {'version': 1, 'content_len': 300}, {'micro': True, 'content_len': 200}, {'encoding': 'ascii', 'content': 'ä€'},
                          {'encoding': 'no-such-codec'}, {'version': 'M4', 'micro': False}))
        bad = dict(bad)
        if 'content_len' in bad:
            content = gen.text(rng, 'alphanumeric', bad.pop('content_len')).strip() or 'A'
        if 'content' in bad:
            content = bad.pop('content')
        mkw = dict(mkw, **bad)
        if is_seq:
            mkw.pop('micro', None)
        kind = rng.choice(opts.KINDS)
        out = [] if rng.random() < 0.3 else ['--output=out/r-%d.%s' % (i, kind)]
        sc.update(content=core.enc(content), mkw=core.enc(mkw), seq=is_seq, out=out)
    elif mode == 'calls':
        sc.update(calls=[gen_call(rng) for _ in range(rng.randint(8, 30))],
                  excluded=sorted(rng.sample(range(len(excluded_calls())), 8)),
                  spell=[[rng.randrange(len(SPELLINGS)), core.enc(gen.text(rng, rng.choice(('numeric', 'alphanumeric', 'byte')), rng.randint(1, 20), 'ascii'))]
                         for _ in range(4)],
                  ser=[[rng.choice(opts.KINDS), rng.randrange(len(BAD_SER)), rng.random() < 0.5, rng.random() < 0.5] for _ in range(14)],
                  kind_spell=[rng.choice(opts.KINDS) for _ in range(3)])
    else:
        threads = [[]]
        makes = []
        for k in range(rng.randint(2, 5)):
            r = rng.random()
            name = 'L%do%d' % (i, k)
            if not makes or r < 0.45:
                spec = ops.gen_make(rng, 's%d' % k, small=rng.random() < 0.7)
                if rng.random() < 0.3:
                    c = gen_call(rng)
                    spec = dict(spec, fn=c['fn'], content=c['content'], kw=c['kw'])
                makes.append(spec)
            elif r < 0.85:
                spec = ops.gen_use(rng, rng.choice(makes), name)
            else:
                spec = ops.gen_cli(rng, name)
            threads[0].append(spec)
        sc.update(threads=threads, granularity='line')
    return sc


# ----------------------------------------------------------------------------------------
def _cli_once(argv, sc, faults):
    w = world.World(clock=world.SimClock(**sc['clock']), faults=faults, bufsize=sc['bufsize']).install()
    pr = world.run_cli(argv, plan=w.plan)
    return w, pr


def _exec_cli_faults(sc, res, viols, counters):
    argv = core.dec(sc['argv'])
    w0, ref = _cli_once(argv, sc, [])
    counters['cli_invocations'] = 1
    if ref['status'] != 0:
        counters['cli_reference_not_ok'] = 1
        if ref['traceback']:
            counters['cli_reference_traceback'] = 1
        res['digest'] = core.digest(['ref-fail', ref['status'], ref['stderr'][:80]])
        res['sample'] = {'mode': 'cli_faults', 'argv': argv, 'reference_status': ref['status']}
        return
    ref_files = {p: blank(v) for p, v in w0.fs.files.items()}
    points = sc.get('points')
    if points is None:
        points = []
        for p in sorted(w0.fs.files):
            nw = sum(1 for e in w0.events if e[0] == 'write' and e[1] == p)
            for e in OPEN_ERRNOS:
                points.append({'op': 'open', 'target': p, 'nth': 0, 'errno': e})
            for k in range(nw):
                for e in WRITE_ERRNOS:
                    points.append({'op': 'write', 'target': p, 'nth': k, 'errno': e})
                points.append({'op': 'write', 'target': p, 'nth': k, 'errno': 'EIO', 'short': True})
            for e in CLOSE_ERRNOS:
                points.append({'op': 'close', 'target': p, 'nth': 0, 'errno': e})
        # stdout writes of the reference run
        n_stdout = ref.get('stdout_writes', 0)
        for k in range(n_stdout):
            points.append({'op': 'write', 'target': 'stdout', 'nth': k, 'errno': 'EPIPE'})
        exhaustive = len(points) <= sc['max_points']
        if not exhaustive:
            prng = core.R(sc['sample_seed'])
            first_last = [pt for pt in points if pt['op'] in ('open', 'close')] + [pt for pt in points if pt['op'] == 'write' and pt['nth'] == 0]
            rest = [pt for pt in points if pt not in first_last]
            prng.shuffle(rest)
            points = (first_last + rest)[:sc['max_points']]
        counters['fault_points_exhaustive_invocations'] = 1 if exhaustive else 0
    log = [['ref', sorted(ref_files), len(ref['stdout'])]]
    fired_kinds = counters.setdefault('faults_fired', {})
    surf = counters.setdefault('failure_surface', {})
    for pi, pt in enumerate(points):
        w, pr = _cli_once(argv, sc, [pt])
        fired = bool(w.plan.fired)
        counters['fault_points_tried'] = counters.get('fault_points_tried', 0) + 1
        if fired:
            k = '%s:%s%s' % (pt['op'], pt['errno'], ':short' if pt.get('short') else '')
            fired_kinds[k] = fired_kinds.get(k, 0) + 1
            res['nontrivial'] = True
        log.append([pi, pt['op'], pt['nth'], pt['errno'], fired, pr['status'], pr['traceback']])
        if pr['status'] == 0:
            problems = []
            for p, v in ref_files.items():
                if p not in w.fs.files:
                    problems.append('%s missing' % p)
                elif blank(w.fs.files[p]) != v:
                    problems.append('%s has %d of %d bytes or other content' % (p, len(w.fs.files[p]), len(v)))
                elif not w.fs.complete(p):
                    problems.append('%s was not closed successfully' % p)
            if pr['stdout'] != ref['stdout']:
                problems.append('stdout has %d of %d characters' % (len(pr['stdout']), len(ref['stdout'])))
            if problems:
                viols.append(_viol('c14.cli.status0', 'exit status 0 although the requested output was not written: %s (fault: %s #%d on %s -> %s; argv %s)'
                                   % ('; '.join(problems[:3]), pt['op'], pt['nth'], pt['target'], pt['errno'], ' '.join(argv)[:120]), point=pt))
                break
            elif fired and not pt.get('short'):
                counters['fault_absorbed_with_complete_output'] = counters.get('fault_absorbed_with_complete_output', 0) + 1
        else:
            key = 'traceback' if pr['traceback'] else 'status_%s' % pr['status']
            surf[key] = surf.get(key, 0) + 1
            if not fired:
                viols.append(_viol('c14.cli.status0', 'invocation failed (status %s) although no fault fired: %s' % (pr['status'], pr['stderr'][:100]), point=pt))
                break
    res['scenario'] = dict(sc, points=points)
    res['digest'] = core.digest(log)
    res['sample'] = {'mode': 'cli_faults', 'argv': argv, 'fault_points': len(points), 'first_points': points[:3]}


def _exec_cli_refusal(segno, sc, res, viols, counters):
    content, mkw = core.dec(sc['content']), core.dec(sc['mkw'])
    try:
        argv = opts.make_argv(mkw, seq=sc['seq']) + list(sc['out']) + [content]
    except KeyError:
        res['digest'] = core.digest(['no-cli-spelling'])
        return
    counters['cli_refusal_invocations'] = 1
    lib_kw = opts.cli_equivalent_make_kw(mkw, sc['seq'])
    lib_exc = None
    try:
        with sched.StepGuard(CALL_BUDGET):
            (segno.make_sequence if sc['seq'] else segno.make)(content, **lib_kw)
    except ValueError as ex:
        lib_exc = ex
    except sched.StepBudgetExceeded:
        viols.append(_viol('c14.liveness', 'make(%r, %s) did not return or raise within %d steps' % (content if len(str(content)) < 40 else '<long>', _kwstr(lib_kw), CALL_BUDGET)))
        res['digest'] = core.digest(['loop'])
        return
    except Exception as ex:
        if type(ex) is LookupError:
            lib_exc = ex
        else:
            viols.append(_viol('c14.exc', '%s(%r, %s) raised %s: %s' % ('make_sequence' if sc['seq'] else 'make', content if len(str(content)) < 40 else '<%d chars>' % len(content),
                                                                       _kwstr(lib_kw), type(ex).__name__, ex), call=[sc['seq'], sc['content'], sc['mkw']]))
            res['digest'] = core.digest(['exc', type(ex).__name__])
            return
    w, pr = _cli_once(argv, sc, [])
    res['digest'] = core.digest([pr['status'], pr['stderr'][:200], pr['traceback']])
    res['sample'] = {'mode': 'cli_refusal', 'argv': argv, 'status': pr['status'], 'stderr': pr['stderr'][:120]}
    if lib_exc is None:
        counters['cli_refusal_not_refused'] = 1
        if pr['status'] != 0:
            viols.append(_viol('c14.cli.refusal', 'library accepts the call but the CLI exits with %s: %s' % (pr['status'], pr['stderr'][:100]), argv=argv))
        return
    if pr['status'] == 2 and 'usage:' in pr['stderr']:
        counters['cli_refused_by_argparse'] = 1
        return
    if isinstance(lib_exc, LookupError):
        counters['cli_lookup_error'] = 1   # an unknown codec is not a ValueError; the statement does not say how the CLI reports it
        return
    res['nontrivial'] = True
    want = str(lib_exc) + os.linesep
    if pr['status'] != 1 or pr['traceback'] or pr['stderr'] != want:
        viols.append(_viol('c14.cli.refusal', 'refusal %r reported as status %s, traceback=%s, stderr %r (argv %s)'
                           % (str(lib_exc)[:80], pr['status'], pr['traceback'], pr['stderr'][:100], ' '.join(argv)[:100]), argv=argv))
    else:
        counters['cli_refusals_reported_correctly'] = 1


def _kwstr(kw):
    return ', '.join('%s=%r' % kv for kv in sorted(kw.items()))


CALL_BUDGET = 12_000_000   # line events; the costliest legal call of the sampled domain (version 40, automatic mask) needs ~5.3e6


def _call(segno, fn, content, kw):
    """Returns ('ok', symbol) | ('ValueError', msg) | ('LookupError', msg) | ('other', 'Type: msg') | ('loop', msg).
    Every call runs under a step budget on the line-event clock (bounded liveness)."""
    try:
        with sched.StepGuard(CALL_BUDGET) as g:
            q = getattr(segno, fn)(content, **kw)
        _call.steps += g.steps
        return 'ok', q
    except sched.StepBudgetExceeded as ex:
        return 'loop', str(ex)
    except ValueError as ex:
        return 'ValueError', str(ex)
    except (IndexError, KeyError) as ex:   # subclasses of LookupError, but never an "unknown codec"
        return 'other', '%s: %s' % (type(ex).__name__, ex)
    except LookupError as ex:
        return 'LookupError', str(ex)
    except Exception as ex:  # noqa
        return 'other', '%s: %s' % (type(ex).__name__, ex)


_call.steps = 0


def _mat(q):
    if isinstance(q, tuple):
        return [ops.matrix_bytes(x) for x in q]
    return ops.matrix_bytes(q)


def _exec_calls(segno, sc, res, viols, counters):
    log = []
    res['nontrivial'] = True
    outcomes = counters.setdefault('call_outcomes', {})
    for ci, c in enumerate(sc['calls']):
        content, kw = core.dec(c['content']), core.dec(c['kw'])
        st, val = _call(segno, c['fn'], content, kw)
        outcomes[st] = outcomes.get(st, 0) + 1
        log.append([ci, st])
        if st == 'loop':
            viols.append(_viol('c14.liveness', '%s(%r, %s) did not return or raise within %d steps' % (c['fn'], content if len(repr(content)) < 50 else '<%d>' % len(content), _kwstr(kw), CALL_BUDGET), call=ci))
        elif st == 'other':
            viols.append(_viol('c14.exc', '%s(%r, %s) raised %s' % (c['fn'], content if len(repr(content)) < 50 else '<%d>' % len(content), _kwstr(kw), val[:120]),
                               call=ci))
        elif st == 'LookupError':
            enc_name = kw.get('encoding')
            known_codec = True
            try:
                codecs.lookup(enc_name)
            except (LookupError, TypeError):
                known_codec = False
            if known_codec:
                viols.append(_viol('c14.exc', '%s(..., %s) raised LookupError although the codec exists: %s' % (c['fn'], _kwstr(kw), val[:100]), call=ci))
        elif st == 'ok':
            why = must_refuse(c['fn'], kw)
            if why is not None:
                viols.append(_viol('c14.excluded', '%s(%r, %s) [%s] was not refused' % (c['fn'], content if len(repr(content)) < 50 else '<%d>' % len(content), _kwstr(kw), why), call=ci))
            syms = val if isinstance(val, tuple) else (val,)
            for q in syms[:4]:
                if len(q.matrix) > 80:
                    continue
                try:
                    rd = refqr.read_symbol(q.matrix)
                    bad = [b for b, (blk, (t, d)) in enumerate(zip(rd.blocks, rd.layout)) if any(refqr.syndromes(blk, t - d))]
                except refqr.Unreadable as ex:
                    bad = str(ex)
                if bad:
                    viols.append(_viol('c14.valid', '%s(%r, %s) returned a symbol a standard reader cannot use: %s' % (c['fn'], content if len(repr(content)) < 50 else '<..>', _kwstr(kw), bad), call=ci))
                    break
    exc = excluded_calls()
    for ei in sc['excluded']:
        fn, content, kw, why = exc[ei]
        st, val = _call(segno, fn, content, kw)
        log.append(['x', ei, st])
        counters['excluded_checked'] = counters.get('excluded_checked', 0) + 1
        if st != 'ValueError':
            viols.append(_viol('c14.excluded', '%s(%r, %s) [%s] was not refused with ValueError: %s' % (fn, content, _kwstr(kw), why, st if st == 'ok' else val[:80]), excluded=ei))
    for si, content in sc['spell']:
        content = core.dec(content)
        canon, alt = SPELLINGS[si]
        base = {}
        if 'mode' in canon:
            content = {'numeric': '12345', 'alphanumeric': 'AB12', 'byte': content, 'kanji': '点茗', 'hanzi': '中文'}[canon['mode']]
        if 'version' in canon and isinstance(canon['version'], str):
            content = '123'
        a = _call(segno, 'make', content, dict(base, **canon))
        b = _call(segno, 'make', content, dict(base, **alt))
        counters['spellings_checked'] = counters.get('spellings_checked', 0) + 1
        log.append(['s', si, a[0], b[0]])
        if a[0] != b[0] or (a[0] == 'ok' and (_mat(a[1]) != _mat(b[1]) or a[1].designator != b[1].designator)):
            viols.append(_viol('c14.spelling', 'make(%r, %s) and make(%r, %s) differ: %s vs %s' % (content, _kwstr(canon), content, _kwstr(alt),
                                                                                                a[0] if a[0] != 'ok' else a[1].designator, b[0] if b[0] != 'ok' else b[1].designator), spelling=si))
    q = segno.make('C14', micro=False)
    for kind, bi, upper, *prime in sc['ser']:
        bad, scope = BAD_SER[bi]
        if scope == 'color' and kind not in COLOR_KINDS:
            continue
        if scope == 'noalpha' and kind not in NOALPHA_KINDS:
            continue
        if 'scale' in bad and kind in ('txt', 'ans'):
            continue
        out = io.BytesIO() if kind in opts.BINARY_KINDS else io.StringIO()
        counters['serialiser_refusals_checked'] = counters.get('serialiser_refusals_checked', 0) + 1
        twin = _twin(bad) if prime and prime[0] else None
        if twin is not None:
            counters['serialiser_refusals_after_twin'] = counters.get('serialiser_refusals_after_twin', 0) + 1
            try:
                with sched.StepGuard(CALL_BUDGET):
                    q.save(io.BytesIO() if kind in opts.BINARY_KINDS else io.StringIO(), kind=kind, **twin)
                log.append(['twin', kind, bi, 'returned'])
            except sched.StepBudgetExceeded:
                log.append(['twin', kind, bi, 'budget'])
            except Exception as ex:  # noqa  (not judged: the twin may be malformed too, or unsupported by this writer)
                log.append(['twin', kind, bi, type(ex).__name__])
        try:
            with sched.StepGuard(CALL_BUDGET):
                q.save(out, kind=kind.upper() if upper else kind, **bad)
            st = 'returned'
        except sched.StepBudgetExceeded:
            st = 'did not terminate within the step budget'
        except ValueError:
            st = 'ValueError'
        except Exception as ex:  # noqa
            st = '%s: %s' % (type(ex).__name__, ex)
        log.append(['ser', kind, bi, st])
        if st != 'ValueError':
            viols.append(_viol('c14.ser', 'save(kind=%r, %s)%s was not refused with ValueError: %s' % (
                kind, _kwstr(bad), ' after save(%s)' % _kwstr(twin) if twin is not None else '', st[:80]), ser=[kind, bi]))
    for kind in sc['kind_spell']:
        outs = []
        for spelling in (kind, kind.upper(), kind.capitalize()):
            out = io.BytesIO() if kind in opts.BINARY_KINDS else io.StringIO()
            w = world.World(clock=world.SimClock(**sc['clock'])).install()
            try:
                q.save(out, kind=spelling)
                outs.append(out.getvalue())
            except Exception as ex:  # noqa
                outs.append('%s: %s' % (type(ex).__name__, ex))
        if outs[0] != outs[1] or outs[0] != outs[2]:
            viols.append(_viol('c14.spelling', 'output kind %r in different letter case gives different results' % kind, kind=kind))
    for bad_kind in ('foo', '', 'svgz'):
        try:
            q.save(io.BytesIO(), kind=bad_kind)
            st = 'returned'
        except ValueError:
            st = 'ValueError'
        except Exception as ex:  # noqa
            st = type(ex).__name__
        if st != 'ValueError' and bad_kind != 'svgz':
            viols.append(_viol('c14.ser', 'save(kind=%r) was not refused with ValueError: %s' % (bad_kind, st), ser=['kind', bad_kind]))
    counters['sim_steps'] = _call.steps
    res['digest'] = core.digest(log)
    res['sample'] = {'mode': 'calls', 'first_calls': [[c['fn'], c['content'] if len(str(c['content'])) < 60 else '<long>', c['kw']] for c in sc['calls'][:3]],
                     'outcomes': outcomes}


def _exec_liveness(segno, sc, res, viols, counters):
    tier = sc.get('tier', 'quick')
    clock = world.SimClock(**sc['clock'])
    w = world.World(clock=clock, bufsize=sc['bufsize']).install()
    S = sched.Scheduler(1, policy={'kind': 'sequential', 'seed': 0}, granularity='line', step_budget=STEP_BUDGET[tier], trace=True)
    so, se = world.SimTextStream(label='stdout'), world.SimTextStream(label='stderr')
    import sys
    old = sys.stdout, sys.stderr
    sys.stdout, sys.stderr = so, se
    log = []

    def body(t):
        ctx = ops.Ctx(w, client=0, stdout=so, stderr=se, swap_std=False)
        for k, spec in enumerate(sc['threads'][0]):
            S.begin_op(0, k)
            try:
                result, q = ops.execute_op(segno, spec, ctx)
                if q is not None:
                    ctx.symbols[spec['id']] = q
                log.append([k, spec['op'], S.opsteps[0]])
            except sched.StepBudgetExceeded as ex:
                viols.append(_viol('c14.liveness', '%s did not return or raise within %d steps' % (spec['op'] + ':' + str(spec.get('fn', '')), STEP_BUDGET[tier]), op=k))
                log.append([k, spec['op'], 'budget'])
            finally:
                S.end_op(0)
    try:
        S.run([body], wall_timeout=1200)
    finally:
        sys.stdout, sys.stderr = old
    counters['liveness_ops'] = len(log)
    counters['sim_steps'] = S.steps
    counters['max_op_steps'] = {'max': S.max_op_steps}
    res['nontrivial'] = True
    res['digest'] = core.digest(log)
    res['sample'] = {'mode': 'liveness', 'ops': [[s['op'], s.get('fn')] for s in sc['threads'][0]], 'steps': [x[2] for x in log]}


def execute(sc):
    segno = core.import_segno()
    counters = {'runs': 1, 'modes': {sc['mode']: 1}}
    viols = []
    res = {'violations': viols, 'counters': counters, 'nontrivial': False, 'scenario': sc, 'digest': None}
    if sc['mode'] == 'cli_faults':
        _exec_cli_faults(sc, res, viols, counters)
    elif sc['mode'] == 'cli_refusal':
        _exec_cli_refusal(segno, sc, res, viols, counters)
    elif sc['mode'] == 'calls':
        _exec_calls(segno, sc, res, viols, counters)
    else:
        _exec_liveness(segno, sc, res, viols, counters)
    return res


def signature(sc, v):
    return (sc['mode'], v['msg'][:50])


def minimise(sc, viol, fails):
    cur = dict(sc)
    if sc['mode'] == 'cli_faults' and viol['detail'].get('point'):
        cand = dict(cur, points=[viol['detail']['point']])
        if fails(cand):
            cur = cand
        argv = core.dec(cur['argv'])
        flags = core.ddmin_list(argv[:-1], lambda a: fails(dict(cur, argv=core.enc(list(a) + argv[-1:]))) and any(x.startswith('--output') for x in a) == any(x.startswith('--output') for x in argv), max_tests=40)
        cand = dict(cur, argv=core.enc(list(flags) + argv[-1:]))
        if fails(cand):
            cur = cand
    elif sc['mode'] == 'calls':
        d = viol['detail']
        if 'call' in d and isinstance(d['call'], int):
            cand = dict(cur, calls=[cur['calls'][d['call']]], excluded=[], spell=[], ser=[], kind_spell=[])
            if fails(cand):
                cur = cand
                c = cur['calls'][0]
                kw = dict(c['kw'])
                for k in list(kw):
                    kw2 = {x: y for x, y in kw.items() if x != k}
                    cand = dict(cur, calls=[dict(c, kw=kw2)])
                    if fails(cand):
                        kw = kw2
                        cur = cand
        elif 'excluded' in d:
            cand = dict(cur, calls=[], excluded=[d['excluded']], spell=[], ser=[], kind_spell=[])
            if fails(cand):
                cur = cand
        elif 'ser' in d and d['ser'][0] != 'kind':
            for one in [x for x in cur['ser'] if x[:2] == d['ser']]:
                cand = dict(cur, calls=[], excluded=[], spell=[], ser=[one], kind_spell=[])
                if fails(cand):
                    cur = cand
                    break
        elif 'spelling' in d:
            cand = dict(cur, calls=[], excluded=[], spell=[x for x in cur['spell'] if x[0] == d['spelling']][:1], ser=[], kind_spell=[])
            if fails(cand):
                cur = cand
    elif sc['mode'] == 'liveness':
        k = viol['detail'].get('op')
        if k is not None:
            spec = cur['threads'][0][k]
            cand_ops = [spec]
            cand = dict(cur, threads=[cand_ops])
            if fails(cand):
                cur = cand
    return cur


def known(sc, viol):
    return known_mod.match(PROP, sc, viol)


def coverage_rule():
    return ('one run is one of four scenario kinds: (cli_faults, 40%) one CLI invocation whose every open/write/close/stdout-write is a fault '
            'point -- all points x errno classes when <= 64, else sampled -- compared with the fault-free run of the same argv; (cli_refusal, 15%) '
            'an invocation whose symbol creation is refused, compared with the library message; (calls, 30%) 8-30 make*/save calls over the '
            'documented argument domains incl. malformed values, documented exclusions, alternative spellings, malformed serialiser arguments; '
            '(liveness, 15%) 2-5 operations under a per-operation step budget on the line-event clock; distinct = distinct event-log digest; '
            'non-trivial = at least one fault fired / one refusal compared / one call batch / one traced operation')


def tier_params(tier):
    if tier == 'quick':
        return {'runs': 1200, 'run_timeout': 900.0, 'wall_cap': 2400}
    return {'budget_s': 600, 'min_runs': 1200, 'run_timeout': 1800.0, 'wall_cap': 4000}


def finish_coverage(cov, counters):
    cov['faults_fired'] = counters.get('faults_fired', {})
    cov['sim_steps'] = counters.get('sim_steps', 0)
    cov['fault_points_tried'] = counters.get('fault_points_tried', 0)
