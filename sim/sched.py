"""Baton-passing deterministic scheduler for real threads running segno code.

Every simulated client is a real thread parked on its own semaphore; exactly one holds the
baton. A trace callback that only follows frames of /repo/segno counts steps (the
simulator's clock), injects planned faults at exact steps and, when the current time slice
is used up, hands the baton to the thread the schedule names. Granularity: 'line'
(sys.settrace line events) or 'instr' (sys.monitoring INSTRUCTION events).

The schedule is either drawn lazily from a PRNG (policy) and recorded as explicit slices
[[thread, steps], ...], or replayed from such a list without any PRNG.
"""
import os
import sys
import threading

from . import core


class SimAbort(BaseException):
    """Injected cancellation (Ctrl-C / killed request): cannot be swallowed by `except Exception`."""


class StepBudgetExceeded(BaseException):
    """The operation used more steps than the liveness budget allows."""


class InjectedMemoryError(MemoryError):
    pass


SEGNO_DIR = os.path.join(os.path.realpath(core.REPO), 'segno') + os.sep
_MON_TOOL = 3


class Scheduler:
    def __init__(self, nthreads, policy=None, explicit=None, granularity='line', step_budget=40_000_000,
                 faults=(), clock=None, trace=True):
        self.n = nthreads
        self.sems = [threading.Semaphore(0) for _ in range(nthreads)]
        self.done_sem = threading.Semaphore(0)
        self.alive = set(range(nthreads))
        self.cur = None
        self.slice_left = 0
        self.granularity = granularity
        self.trace = trace
        self.step_budget = step_budget
        self.clock = clock
        self.policy = policy or {'kind': 'geometric', 'mean': 500, 'seed': 0}
        self.rng = core.R(self.policy.get('seed', 0))
        self.explicit = [list(x) for x in explicit] if explicit is not None else None
        self.explicit_pos = 0
        self.recorded = []          # realised schedule [[tid, steps]]
        self.cur_slice_steps = 0
        self.steps = 0              # global step counter = simulated time in scheduler ticks
        self.tsteps = [0] * nthreads
        self.opsteps = [0] * nthreads      # steps inside the current operation of each thread
        self.opindex = [-1] * nthreads
        self.switches = 0
        self.switches_in_op = 0
        self.log = []               # (step, from, to, where)
        self.pairs = set()          # interleaving signature: (function pre-empted, function the other thread is in)
        self.where = [None] * nthreads
        self.in_op = [False] * nthreads
        self.faults = [dict(f) for f in faults]
        self.fired = []
        self.errors = []
        self.tid_of = {}
        self.max_op_steps = 0
        # 'rendezvous' policy (instruction granularity): clients are held at every line that touches shared mutable state
        # (module globals, closure cells) until another client arrives at the same point; the next instructions are then
        # executed in tight alternation (1-3 instructions per slice), so that windows *inside* one source line are crossed
        # by two clients at the same time although their data (and therefore their paths elsewhere) differ
        self.rv = self.explicit is None and self.policy.get('kind') == 'rendezvous'
        self.rv_cache = {}
        self.rv_wait = {}       # tid -> (code, offset) the client is held at
        self.rv_since = {}
        self.rv_patience = self.policy.get('patience', 30000)
        self._rv_prob = self.policy.get('rv_prob', 1.0)
        self.tight_left = 0
        self.tight_set = ()
        self.rendezvous = 0

    # ------------------------------------------------------------------ schedule source
    def _next_slice(self, exclude_finished=True):
        alive = sorted(self.alive)
        if not alive:
            return None, 0
        if self.explicit is not None:
            while self.explicit_pos < len(self.explicit):
                tid, steps = self.explicit[self.explicit_pos]
                self.explicit_pos += 1
                if tid in self.alive and steps > 0:
                    return tid, steps
            return alive[0], 1 << 60   # schedule exhausted: run the rest to completion in order
        p = self.policy
        kind = p['kind']
        if self.rv:
            if self.tight_left > 0:
                cand = [t for t in self.tight_set if t in self.alive]
                if len(cand) >= 2:
                    nxt = [t for t in cand if t != self.cur] or cand
                    n = self.rng.choice((1, 1, 2, 3))
                    self.tight_left = max(0, self.tight_left - n)
                    return self.rng.choice(nxt), n
                self.tight_left = 0
            free = [t for t in alive if t not in self.rv_wait]
            if not free:   # everybody is held somewhere: release the one that has waited longest
                t = min(self.rv_wait, key=lambda x: (self.rv_since.get(x, 0), x))
                del self.rv_wait[t]
                free = [t]
            return self.rng.choice(free), 1 + int(self.rng.expovariate(1.0 / p.get('mean', 3000)))
        if kind == 'sequential':
            return alive[0], 1 << 60
        if kind == 'roundrobin':
            # strict alternation with tiny slices: clients that execute the same code path stay within a few
            # lines of each other ("both inside the same function at the same time")
            self._rr = (getattr(self, '_rr', -1) + 1) % self.n
            while self._rr not in self.alive:
                self._rr = (self._rr + 1) % self.n
            return self._rr, max(1, p.get('mean', 1))
        if kind == 'starve':
            victim = p.get('victim', 0)
            others = [t for t in alive if t != victim]
            if others:
                tid = self.rng.choice(others)
            else:
                tid = victim
        else:
            tid = self.rng.choice(alive)
        mean = p.get('mean', 500)
        if kind == 'bimodal':
            # mostly very short slices (so that some slice ends inside any given narrow window), now and then a very
            # long one (so that the other client travels far -- through its own copy of the window -- while one is parked)
            if self.rng.random() < 0.5:
                steps = self.rng.randint(1, max(2, mean))
            else:
                steps = self.rng.randint(2000, 120000)
        elif kind == 'fixed':
            steps = mean
        else:
            # geometric-ish with heavy tail: most slices short, some long
            steps = 1 + int(self.rng.expovariate(1.0 / mean))
        return tid, steps

    def _record(self, tid, finishing=False):
        # a client that finishes inside its slice gets one spare step recorded, so that a replay
        # of the explicit slice does not pre-empt it at its very last step
        n = self.cur_slice_steps + (1 if finishing else 0)
        if n > 0 and tid is not None:
            if self.recorded and self.recorded[-1][0] == tid:
                self.recorded[-1][1] += n
            else:
                self.recorded.append([tid, n])
        self.cur_slice_steps = 0

    # ------------------------------------------------------------------ baton
    def start(self):
        tid, steps = self._next_slice()
        self.cur, self.slice_left = tid, steps
        self.sems[tid].release()

    def _handoff(self, me, where):
        """Called by the running thread `me` when its slice is used up (or at an op boundary)."""
        self._record(me)
        tid, steps = self._next_slice()
        self.slice_left = steps
        if tid == me:
            return
        self.switches += 1
        if self.in_op[me]:
            self.switches_in_op += 1
            if self.in_op[tid] and self.where[tid] is not None and where is not None:
                self.pairs.add((where[0], self.where[tid][0]))
        if len(self.log) < 20000:
            self.log.append((self.steps, me, tid, where))
        self.where[me] = where
        self.cur = tid
        self.sems[tid].release()
        self.sems[me].acquire()

    def finish(self, me):
        self._record(me, finishing=True)
        self.alive.discard(me)
        if self.alive:
            tid, steps = self._next_slice()
            self.cur, self.slice_left = tid, steps
            self.sems[tid].release()
        else:
            self.cur = None
            self.done_sem.release()

    # ------------------------------------------------------------------ the step
    def step(self, tid, a, b=None):
        """One step of client `tid`. (a, b) = (frame, None) for line events, (code, offset) for instructions."""
        self.steps += 1
        self.tsteps[tid] += 1
        self.cur_slice_steps += 1
        n = self.opsteps[tid] = self.opsteps[tid] + 1
        if self.faults:
            k = self.opindex[tid]
            for f in self.faults:
                if f.get('done') or f['thread'] != tid or f['op'] != k:
                    continue
                fn = f.get('in_fn')
                if fn is not None:
                    # fault placed inside a named function (in-flight state): fires at the nth step executed there
                    if (a.f_code.co_name if b is None else a.co_name) != fn:
                        continue
                    f['_seen'] = f.get('_seen', 0) + 1
                    if f['_seen'] != f.get('nth', 1):
                        continue
                elif f['step'] != n:
                    continue
                f['done'] = True
                w = self._where(a, b)
                self.fired.append({'kind': f['kind'], 'thread': tid, 'op': k, 'step': n, 'where': list(w)})
                if f['kind'] == 'abort':
                    raise SimAbort('injected abort at %s:%s' % w)
                if f['kind'] == 'memerr':
                    raise InjectedMemoryError('injected allocation failure at %s:%s' % w)
                if f['kind'] == 'clock' and self.clock is not None:
                    self.clock.advance(f.get('delta', 3600))
        if self.rv and not self.tight_left and len(self.alive) > 1:
            # the point reached: (code, instruction offset) at instruction granularity, (code, line) at line granularity
            code, at = (a, b) if b is not None else (a.f_code, a.f_lineno)
            pts = self.rv_cache.get(code)
            if pts is None:
                pts = self.rv_cache[code] = _shared_offsets(code, lines=b is None)
            if at in pts and (self._rv_prob >= 1.0 or self.rng.random() < self._rv_prob):
                key = (code, at)
                other = None
                for t, k2 in self.rv_wait.items():
                    if k2 == key and t != tid and t in self.alive:
                        other = t
                        break
                if other is not None:
                    del self.rv_wait[other]
                    self.tight_left = self.policy.get('tight', 90)
                    self.tight_set = (tid, other)
                    self.rendezvous += 1
                    self.slice_left = 1          # start alternating right here
                else:
                    self.rv_wait[tid] = key
                    self.rv_since[tid] = self.steps
                    self.slice_left = 1          # give the baton away; this client is held until somebody joins or patience ends
            if self.rv_wait:
                for t in [t for t, since in self.rv_since.items() if t in self.rv_wait and self.steps - since > self.rv_patience]:
                    del self.rv_wait[t]
        if n > self.step_budget:
            raise StepBudgetExceeded('operation %d of client %d exceeded %d steps' % (self.opindex[tid], tid, self.step_budget))
        self.slice_left -= 1
        if self.slice_left <= 0 and len(self.alive) > 1:
            self._handoff(tid, self._where(a, b))
        elif self.slice_left <= 0:
            self._record(tid)
            _, self.slice_left = self._next_slice()

    @staticmethod
    def _where(a, b):
        if b is None:
            return (a.f_code.co_name, a.f_lineno)
        return (a.co_name, b)

    # ------------------------------------------------------------------ tracing
    def make_tracer(self, tid):
        sched = self
        seg = SEGNO_DIR

        def local(frame, event, arg):
            if event == 'line':
                sched.step(tid, frame)
            return local

        def tracer(frame, event, arg):
            if frame.f_code.co_filename.startswith(seg):
                return local
            return None
        return tracer

    def begin_op(self, tid, k):
        self.opindex[tid] = k
        self.opsteps[tid] = 0
        self.in_op[tid] = True
        if self.trace and self.granularity == 'line':
            sys.settrace(self.make_tracer(tid))

    def end_op(self, tid):
        if self.trace and self.granularity == 'line':
            sys.settrace(None)
        self.in_op[tid] = False
        self.max_op_steps = max(self.max_op_steps, self.opsteps[tid])

    # sys.monitoring (instruction granularity) -- one global callback for all threads
    def _on_instr(self, code, offset):
        if not code.co_filename.startswith(SEGNO_DIR):
            return sys.monitoring.DISABLE
        tid = self.tid_of.get(threading.get_ident())
        if tid is None or not self.in_op[tid]:
            return None
        self.step(tid, code, offset)
        return None

    def install_monitoring(self):
        mon = sys.monitoring
        if mon.get_tool(_MON_TOOL) is None:
            mon.use_tool_id(_MON_TOOL, 'segno-sim')
        mon.register_callback(_MON_TOOL, mon.events.INSTRUCTION, self._on_instr)
        mon.restart_events()
        mon.set_events(_MON_TOOL, mon.events.INSTRUCTION)

    def uninstall_monitoring(self):
        mon = sys.monitoring
        mon.set_events(_MON_TOOL, 0)
        mon.register_callback(_MON_TOOL, mon.events.INSTRUCTION, None)

    # ------------------------------------------------------------------ running clients
    def run(self, client_bodies, wall_timeout=None):
        """client_bodies: list of callables body(tid) -- each runs its operations, calling
        begin_op/end_op/yield_point around them. Returns when all clients have finished."""
        threads = []

        def wrap(tid):
            self.tid_of[threading.get_ident()] = tid
            self.sems[tid].acquire()
            try:
                client_bodies[tid](tid)
            except BaseException as ex:  # harness problem: must not hang the run
                import traceback
                self.errors.append('client %d: %s' % (tid, traceback.format_exc()))
                try:
                    sys.settrace(None)
                except Exception:
                    pass
                self.in_op[tid] = False
            finally:
                self.finish(tid)

        for tid in range(self.n):
            t = threading.Thread(target=wrap, args=(tid,), name='sim-client-%d' % tid, daemon=True)
            threads.append(t)
            t.start()
        use_mon = self.trace and self.granularity == 'instr'
        if use_mon:
            self.install_monitoring()
        try:
            self.start()
            if not self.done_sem.acquire(timeout=wall_timeout):
                raise core.HarnessError('scheduler: clients did not finish within %ss wall clock' % wall_timeout)
        finally:
            if use_mon:
                self.uninstall_monitoring()
        for t in threads:
            t.join(timeout=10)
        if self.errors:
            raise core.HarnessError('client thread failed:\n' + '\n'.join(self.errors))

    def digest(self):
        return core.digest([self.recorded, [list(x[:3]) + [list(x[3]) if x[3] else None] for x in self.log[:2000]], self.fired])


_FILE2MOD = {}
_MISSING = object()


def _shared_offsets(code, lines=False):
    """Instruction offsets that begin a source line which touches shared mutable state: a module-level name bound to a
    mutable container / None / not (yet) defined, an attribute of a module that is a mutable container, or a closure cell.
    With lines=True the line numbers themselves are returned (line-granular rendezvous)."""
    want_lines = lines
    import builtins
    import dis
    import types
    if not _FILE2MOD:
        for m in list(sys.modules.values()):
            f = getattr(m, '__file__', None)
            if f and f.startswith(SEGNO_DIR):
                _FILE2MOD[f] = m
    mod = _FILE2MOD.get(code.co_filename)
    g = vars(mod) if mod is not None else {}
    mutable = (dict, list, set, bytearray)
    lines = set()
    instrs = list(dis.get_instructions(code))
    cur_line = None
    for i, ins in enumerate(instrs):
        if ins.starts_line is not None:
            cur_line = ins.starts_line
        op = ins.opname
        hit = False
        if op in ('LOAD_GLOBAL', 'STORE_GLOBAL', 'DELETE_GLOBAL', 'LOAD_NAME'):
            name = ins.argval
            v = g.get(name, _MISSING)
            if v is _MISSING:
                hit = not hasattr(builtins, name)
            elif v is None or isinstance(v, mutable):
                hit = True
            elif isinstance(v, types.ModuleType) and i + 1 < len(instrs) and instrs[i + 1].opname in ('LOAD_ATTR', 'STORE_ATTR'):
                hit = isinstance(getattr(v, instrs[i + 1].argval, None), mutable)
        elif op in ('LOAD_DEREF', 'STORE_DEREF'):
            hit = True
        if hit and cur_line is not None:
            lines.add(cur_line)
    if want_lines:
        return frozenset(lines)
    return frozenset(ins.offset for ins in instrs if ins.starts_line is not None and ins.starts_line in lines)


class StepGuard:
    """Bounded-liveness guard for one operation outside the scheduler: counts line events of /repo/segno code
    in the current thread and raises StepBudgetExceeded beyond the budget. `with StepGuard(n) as g: ...; g.steps`."""

    def __init__(self, budget):
        self.budget = budget
        self.steps = 0

    def __enter__(self):
        guard = self
        seg = SEGNO_DIR

        def local(frame, event, arg):
            if event == 'line':
                guard.steps += 1
                if guard.steps > guard.budget:
                    raise StepBudgetExceeded('more than %d steps' % guard.budget)
            return local

        def tracer(frame, event, arg):
            if frame.f_code.co_filename.startswith(seg):
                return local
            return None
        self._old = sys.gettrace()
        sys.settrace(tracer)
        return self

    def __exit__(self, *exc):
        sys.settrace(self._old)
        return False
