"""Self-validation of the machinery (not a MANIFEST check).

  check.py selftest determinism [--runs N]
      every property: runs 0..N-1 executed three times -- 16 workers, 3 workers, and in a fresh
      interpreter under another PYTHONHASHSEED -- event-log digests and verdicts must be identical.
"""
import importlib
import json
import os
import subprocess
import sys
import time

from . import core

PROPS = ('C03', 'C08', 'C12', 'C14', 'C15')


def _exec(mod, seed, tier, i):
    r = mod.execute(mod.gen_scenario(seed, i, tier))
    return {'digest': r.get('digest'), 'viol': sorted(v['clause'] for v in r['violations'])}


def digests(prop, seed, n, jobs, tier='quick'):
    mod = importlib.import_module('sim.' + prop.lower())
    results, errors = core.run_batch(lambda i: _exec(mod, seed, tier, i), n_runs=n, jobs=jobs, run_timeout=900, wall_cap=7200)
    out = {str(i): results[i] for i in sorted(results)}
    for i, e in errors:
        out['err%s' % i] = {'digest': 'HARNESS-ERROR', 'viol': [e.strip().splitlines()[-1][:200] if e.strip() else e]}
    return out


def main(sub, seed, jobs, runs=None):
    if sub == 'digests':
        prop, n, j = os.environ['ST_PROP'], int(os.environ['ST_N']), int(os.environ['ST_JOBS'])
        sys.stdout.write('DIGESTS ' + json.dumps(digests(prop, seed, n, j)) + '\n')
        return 0
    if sub not in (None, 'determinism'):
        print('unknown selftest %r' % sub)
        return 2
    n = runs or int(os.environ.get('ST_N') or 120)
    bad = 0
    for prop in PROPS:
        t0 = time.time()
        a = digests(prop, seed, n, jobs)
        b = digests(prop, seed, n, 3)
        env = dict(os.environ, PYTHONHASHSEED='12345', ST_PROP=prop, ST_N=str(n), ST_JOBS=str(max(2, jobs // 2)), VERIF_SEED=str(seed))
        p = subprocess.run([sys.executable, os.path.join(core.VERIF, 'check.py'), 'selftest', 'digests'], env=env, stdout=subprocess.PIPE)
        line = [ln for ln in p.stdout.decode().splitlines() if ln.startswith('DIGESTS ')]
        c = json.loads(line[0][8:]) if line else {}
        diffs = [i for i in a if a[i] != b.get(i) or a[i] != c.get(i)]
        missing = (set(a) ^ set(b)) | (set(a) ^ set(c))
        print('selftest determinism %s: %d runs x 3 executions (jobs=%d, jobs=3, fresh interpreter PYTHONHASHSEED=12345): %d differing, %d missing, %.0fs'
              % (prop, n, jobs, len(diffs), len(missing), time.time() - t0))
        for i in diffs[:5]:
            print('   run %s: %s | %s | %s' % (i, a[i], b.get(i), c.get(i)))
        bad += len(diffs) + len(missing)
        sys.stdout.flush()
    return 1 if bad else 0
