"""Operations of the simulated clients: generation (seeded), execution against a World, and
canonical (JSON-able, comparable) results. Shared by C14 and C15.

An operation spec is self-contained: operations that work on a symbol carry the spec of the
call that creates it (`symspec`), so the *golden* of every operation -- its result when
executed alone in a pristine process -- is a function of the spec only. Inside a run the
operation uses the symbol object an earlier operation (possibly of another client) returned,
if that operation has completed.
"""
import base64
import gzip
import hashlib
import io
import urllib.parse

from . import core, gen, opts, world
from .c12 import blank

OSERROR_NAMES = ('OSError', 'PermissionError', 'FileNotFoundError', 'BrokenPipeError', 'IsADirectoryError',
                 'UnsupportedOperation', 'BlockingIOError')
HELPERS = ('make_wifi', 'make_mecard', 'make_vcard', 'make_geo', 'make_email', 'make_epc_qr')


def sha(b):
    return hashlib.sha1(b).hexdigest()[:20]


def sym_summary(q):
    return {'matrix': sha(b''.join(bytes(r) for r in q.matrix)), 'size': len(q.matrix), 'version': q.version,
            'error': q.error, 'mask': q.mask, 'mode': q.mode, 'designator': q.designator, 'is_micro': q.is_micro}


def matrix_bytes(q):
    return [bytes(r) for r in q.matrix]


class Ctx:
    """Execution context of one client inside one run."""

    def __init__(self, w, symbols=None, client=0, stdout=None, stderr=None, swap_std=True):
        self.world = w
        self.symbols = symbols if symbols is not None else {}
        self.client = client
        self.stdout = stdout
        self.stderr = stderr
        self.swap_std = swap_std


def _gunzip_if_svgz(path, data):
    """The gzip header carries mtime and file name: .svgz output is compared after gunzipping."""
    if path.lower().endswith('.svgz'):
        try:
            return gzip.decompress(data)
        except Exception:  # truncated by a fault: compare raw
            return data
    return data


def _exc(ex):
    return {'exc': [type(ex).__name__, str(ex)]}


def _resolve(segno, spec, ctx):
    """The symbol an operation works on: the shared object if its creator has completed, else a private one."""
    sid = spec.get('sym')
    q = ctx.symbols.get(sid) if sid is not None else None
    if q is None:
        q = _call_make(segno, spec['symspec'])
    return q


class ArgsModified(Exception):
    """A call changed an object the caller passed in (clause c15.args)."""


def _call_make(segno, ms):
    fn = ms['fn']
    kw = core.dec(ms['kw'])
    if fn.startswith('helpers.'):
        from segno import helpers
        q = getattr(helpers, fn.split('.', 1)[1])(**kw)
        content = None
    else:
        content = core.dec(ms['content'])
        q = getattr(segno, fn)(content, **kw)
    # the objects handed to the library must be unchanged (compare with a fresh decode of the spec)
    if kw != core.dec(ms['kw']) or (content is not None and content != core.dec(ms['content'])):
        raise ArgsModified('%s modified its arguments: content %r, keywords %r' % (fn, content, kw))
    return q


def _run_cli_checked(argv, spec, ctx):
    pr = world.run_cli(argv, plan=ctx.world.plan, stdout=ctx.stdout, stderr=ctx.stderr, swap=ctx.swap_std)
    if argv != core.dec(spec['argv']):
        raise ArgsModified('cli.main modified the argument list it was given: %r' % argv)
    return pr


def execute_op(segno, spec, ctx):
    """Executes one operation. Returns (result, symbol or None). Injected aborts (BaseException)
    propagate to the caller; everything else becomes a result."""
    op = spec['op']
    fs = ctx.world.fs
    try:
        if op == 'make':
            q = _call_make(segno, spec)
            if isinstance(q, tuple):  # QRCodeSequence
                return {'ok': {'seq': True, 'syms': [sym_summary(x) for x in q]}}, q
            return {'ok': {'seq': False, 'syms': [sym_summary(q)]}}, q
        if op == 'save':
            q = _resolve(segno, spec, ctx)
            kind, skw, route, name = spec['kind'], core.dec(spec['skw']), spec['route'], spec['name']
            binary = kind in opts.BINARY_KINDS
            before = set(fs.files)
            if route == 'stream':
                out = io.BytesIO() if binary else io.StringIO()
                q.save(out, kind=spec.get('kind_spelling', kind), **skw)
                doc = out.getvalue()
                doc = doc.encode('utf-8') if isinstance(doc, str) else doc
                files = {}
            else:
                ext = spec.get('ext', kind) if route == 'path' else 'svgz'
                q.save('d/%s.%s' % (name, ext), **skw)
                files = {p: fs.files[p] for p in fs.files if p not in before and name in p}
                if route == 'svgz':
                    files = {p: gzip.decompress(v) for p, v in files.items()}
                doc = b''.join(files[p] for p in sorted(files))
            return {'ok': {'doc': sha(blank(doc)), 'len': len(doc), 'files': sorted(files),
                           'closed': all(fs.complete(p) for p in files)}}, None
        if op == 'uri':
            q = _resolve(segno, spec, ctx)
            skw = core.dec(spec['skw'])
            s = getattr(q, spec['which'])(**skw)
            if spec['which'] == 'png_data_uri':
                body = base64.b64decode(s.split(',', 1)[1])
            elif spec['which'] == 'svg_data_uri':
                body = urllib.parse.unquote_to_bytes(s.split(',', 1)[1])
            else:
                body = s.encode('utf-8')
            return {'ok': {'doc': sha(body), 'len': len(body), 'head': s[:22]}}, None
        if op == 'terminal':
            q = _resolve(segno, spec, ctx)
            if spec['out'] == 'stream':
                buf = io.StringIO()
                q.terminal(out=buf, border=spec['border'], compact=spec['compact'])
                text = buf.getvalue()
            else:
                mark = len(ctx.stdout.parts)
                q.terminal(border=spec['border'], compact=spec['compact'])
                text = ''.join(ctx.stdout.parts[mark:])
            return {'ok': {'doc': sha(text.encode('utf-8')), 'len': len(text)}}, None
        if op == 'miter':
            q = _resolve(segno, spec, ctx)

            def gen():
                return q.matrix_iter(scale=spec['scale'], border=spec['border'], verbose=spec['verbose'])

            def freeze(row):
                return tuple(row)
            mode = spec['consume']
            h = hashlib.sha1()
            n = 0
            if mode == 'half':
                it = gen()
                for row in it:
                    h.update(repr(list(row)).encode())
                    n += 1
                    if n >= spec.get('rows', 3):
                        break
                del it   # abandoned half-way
                return {'ok': {'doc': h.hexdigest()[:20], 'rows': n}}, None
            ref = [freeze(r) for r in gen()]          # row by row, frozen at once
            for row in ref:
                h.update(repr(list(row)).encode())
            problems = []
            if mode == 'list':
                got = [freeze(r) for r in list(gen())]    # materialised first: rows must not be views of a reused buffer
                if got != ref:
                    problems.append('list(matrix_iter()) differs from consuming row by row')
            elif mode == 'interleaved':
                a, b = gen(), gen()
                ra, rb = [], []
                for x, y in zip(a, b):
                    ra.append(freeze(x))
                    rb.append(freeze(y))
                if ra != ref or rb != ref:
                    problems.append('two generators advanced alternately yield other rows than one generator alone')
            elif mode == 'abandoned':
                a = gen()
                head = [freeze(next(a)) for _ in range(min(spec.get('rows', 3), len(ref)))]
                full = [freeze(r) for r in gen()]         # another iteration while the first is suspended
                tail = [freeze(r) for r in a]
                if full != ref or head + tail != ref:
                    problems.append('an iteration started while another generator is suspended (or the suspended one, resumed) yields other rows')
            return {'ok': {'doc': h.hexdigest()[:20], 'rows': len(ref), 'consistent': not problems, 'problems': problems}}, None
        if op == 'reencode':
            q = _resolve(segno, spec, ctx)
            ms = spec['symspec']
            kw = core.dec(ms['kw'])
            kw.update(version=q.version, error=q.error, mask=q.mask, boost_error=False)
            if q.is_micro and kw.get('micro') is False:
                kw.pop('micro')
            try:
                q2 = getattr(segno, ms['fn'])(core.dec(ms['content']), **kw)
            except MemoryError:
                raise   # an injected allocation failure is a fault of the run, not a refusal by the library
            except Exception as ex:  # noqa -- the symbol exists, so re-encoding it with its own reported parameters must not be refused
                return {'ok': {'same': False, 'a': sym_summary(q), 'b': {'raised': [type(ex).__name__, str(ex)]}}}, None
            return {'ok': {'same': matrix_bytes(q2) == matrix_bytes(q), 'a': sym_summary(q), 'b': sym_summary(q2)}}, None
        if op == 'cli':
            before = set(fs.files)
            mark_o, mark_e = len(ctx.stdout.parts), len(ctx.stderr.parts)
            argv = core.dec(spec['argv'])
            pr = _run_cli_checked(argv, spec, ctx)
            files = {p: fs.files[p] for p in fs.files if p not in before and spec['name'] in p}
            return {'ok': {'status': pr['status'], 'stdout': sha(''.join(ctx.stdout.parts[mark_o:]).encode('utf-8')),
                           'stderr': ''.join(ctx.stderr.parts[mark_e:])[:300], 'traceback': pr['traceback'],
                           'files': {p: sha(blank(_gunzip_if_svgz(p, v))) for p, v in sorted(files.items())},
                           'closed': all(fs.complete(p) for p in files)}}, None
        raise core.HarnessError('unknown op %r' % op)
    except core.HarnessError:
        raise
    except Exception as ex:  # noqa -- the result of the operation is the exception
        return _exc(ex), None


# ----------------------------------------------------------------------------------------
# generation
BAD_MAKE = [{'version': 'M5'}, {'version': 41}, {'version': 0}, {'mask': 8}, {'mask': -1}, {'error': 'x'}, {'mode': 'foo'},
            {'version': 'M1', 'error': 'H'}, {'micro': True, 'error': 'H'}, {'micro': True, 'eci': True},
            {'version': 'M2', 'mode': 'byte'}, {'micro': True, 'mode': 'hanzi'}, {'version': 'M4', 'micro': False},
            {'micro': True, 'version': 3}, {'encoding': 'no-such-codec'}, {'mask': 4, 'micro': True}]
BAD_SER = [{'scale': 0}, {'scale': -1}, {'border': -1}, {'border': 1.5}, {'dark': '#12'}, {'dark': 'nocolor'},
           {'light': (1, 2)}, {'dark': (300, 0, 0)}, {'scale': 0.0}]


def gen_make(rng, sid, small=True, allow_bad=True):
    fn = rng.weighted([('make', 60), ('make_qr', 12), ('make_micro', 10), ('make_sequence', 10), ('helper', 8)])
    if fn == 'helper':
        h = rng.choice(HELPERS)

        def opt(d, k, vals, p=0.4):
            if rng.random() < p:
                d[k] = rng.choice(vals)
        if h == 'make_wifi':
            kw = {'ssid': rng.choice(('My WLAN;x', 'Cafe', 'a:b,c\\d', 'Ünï')), 'password': rng.choice(('p\\w:"1', 'secret', None, '12345678')),
                  'security': rng.choice(('WPA', 'WEP', None, 'wpa')), 'hidden': rng.random() < 0.3}
        elif h == 'make_mecard':
            kw = {'name': rng.choice(('Doe,John', 'Mustermann,Max', 'A;B'))}
            opt(kw, 'email', ('me@example.org', ('a@example.org', 'b@example.org')))
            opt(kw, 'phone', ('+1 234', ('1', '2')))
            opt(kw, 'url', ('http://example.org/', ('http://a.example', 'http://b.example')))
            opt(kw, 'memo', ('hello; world', 'x:y'))
            opt(kw, 'nickname', ('Johnny',))
            opt(kw, 'birthday', (19800101, '1990-12-31'))
            opt(kw, 'city', ('Berlin',))
            opt(kw, 'country', ('Germany',))
        elif h == 'make_vcard':
            kw = {'name': rng.choice(('Doe;John', 'Mustermann;Max', 'Solo')), 'displayname': rng.choice(('John Doe', 'Max M.'))}
            opt(kw, 'email', ('a@example.org', ('a@example.org', 'b@example.org')))
            opt(kw, 'phone', ('+49 30 1', ('1', '2', '3')))
            opt(kw, 'org', ('ACME', ('ACME', 'Dept')))
            opt(kw, 'url', ('https://example.org',))
            opt(kw, 'title', ('Dr.', ('CEO', 'CTO')))
            opt(kw, 'memo', ('line1\nline2', 'a,b;c'))
            opt(kw, 'birthday', ('1980-01-01',))
            opt(kw, 'street', ('Main St 1',))
            opt(kw, 'city', ('Berlin',))
            opt(kw, 'zipcode', ('10115', 10115))
            opt(kw, 'country', ('Germany',))
            if rng.random() < 0.2:
                kw.update(lat=52.5, lng=13.4)
            opt(kw, 'cellphone', ('+49 170 1',))
            opt(kw, 'nickname', ('Johnny', ('J', 'JD')))
        elif h == 'make_geo':
            kw = {'lat': rng.choice((38.8976763, -33.86, 0.0, 90, -0.5)), 'lng': rng.choice((-77.0365297, 151.2, 0.0, -180, 7.25))}
        elif h == 'make_email':
            kw = {'to': rng.choice(('me@example.org', ('a@example.org', 'b@example.org')))}
            opt(kw, 'cc', ('c@example.org', ('c@example.org', 'd@example.org')))
            opt(kw, 'bcc', ('e@example.org',))
            opt(kw, 'subject', ('Hi & <you>', 'Re: 100% sure?'))
            opt(kw, 'body', ('line1\nline2', 'Grüße'))
        else:
            kw = {'name': rng.choice(('Wikimedia', 'Franz Mustermänn')), 'iban': rng.choice(('DE33100205000001194700', 'FR1420041010050500013M02606')),
                  'amount': rng.choice((1, 20.5, 999.99, '12.3', 0.01))}
            opt(kw, 'text', ('Spende', 'Rechnung 4711'), 0.6)
            opt(kw, 'bic', ('BFSWDE33BER',))
            opt(kw, 'purpose', ('CHAR',))
            if 'text' not in kw:
                opt(kw, 'reference', ('RF18539007547034',))
            opt(kw, 'encoding', ('utf-8', 'iso-8859-1', 2), 0.3)
        return {'op': 'make', 'fn': 'helpers.' + h, 'content': None, 'kw': core.enc(kw), 'id': sid}
    kw = {}
    mode = rng.choice(('numeric', 'alphanumeric', 'byte', 'byte', 'kanji', 'hanzi'))
    n = rng.randint(1, 24 if small else 300)
    if fn == 'make_micro':
        n = rng.randint(1, 12)
        mode = rng.choice(('numeric', 'alphanumeric', 'byte'))
    content = gen.text(rng, mode, n if mode not in ('kanji', 'hanzi') else max(1, n // 3))
    if mode in ('numeric', 'alphanumeric') and rng.random() < 0.15:
        content = gen.near_text(rng, n)
    if mode == 'hanzi':
        kw['mode'] = 'hanzi'
    if mode == 'numeric' and content.isdigit() and rng.random() < 0.3:
        content = int(content.lstrip('0') or '0')
    if rng.random() < 0.08 and mode in ('numeric', 'alphanumeric', 'byte'):
        content = [content if not isinstance(content, int) else str(content), gen.text(rng, rng.choice(('numeric', 'byte')), rng.randint(1, 8), 'ascii')]
    if fn == 'make_sequence':
        if rng.random() < 0.6:
            kw['symbol_count'] = rng.randint(1, 4)
        else:
            kw['version'] = rng.randint(1, 3)
    else:
        if fn == 'make' and rng.random() < 0.4:
            kw['micro'] = rng.choice((True, False))
        if rng.random() < 0.25:
            kw['version'] = rng.choice(('M2', 'M3', 'M4', 'm4')) if (fn == 'make_micro' or (fn == 'make' and rng.random() < 0.3 and kw.get('micro') is not False)) \
                else rng.randint(1, 6 if small else 25)
            if fn == 'make_qr' and isinstance(kw['version'], str):
                kw['version'] = 2
        if fn != 'make_micro' and rng.random() < 0.18 and kw.get('micro') is not True and not isinstance(kw.get('version'), str):
            kw['eci'] = True
            if isinstance(content, str) and rng.random() < 0.5:
                kw['encoding'] = rng.choice(('utf-8', 'iso-8859-15', 'cp1252', 'shift_jis', 'utf-16'))
    if rng.random() < 0.4:
        kw['error'] = rng.choice(('L', 'M', 'Q', 'H', 'l', 'm', 'q'))
    if rng.random() < 0.3:
        kw['boost_error'] = False
    if rng.random() < 0.3:
        kw['mask'] = rng.randrange(4) if (fn == 'make_micro' or kw.get('micro') is True or rng.random() < 0.4) else rng.randrange(8)
    if rng.random() < 0.08 and isinstance(content, str):
        kw['encoding'] = rng.choice(('utf-8', 'latin1', 'shift_jis'))
    if allow_bad and rng.random() < 0.12:
        bad = dict(rng.choice(BAD_MAKE))
        if fn != 'make':
            bad.pop('micro', None)
        if fn == 'make_sequence':
            bad.pop('eci', None)
        kw.update(bad)
    return {'op': 'make', 'fn': fn, 'content': core.enc(content), 'kw': core.enc(kw), 'id': sid}


def gen_use(rng, make_spec, name, allow_bad=True, cli_ok=True):
    """An operation that uses the symbol created by make_spec."""
    symspec = {'fn': make_spec['fn'], 'content': make_spec['content'], 'kw': make_spec['kw']}
    base = {'sym': make_spec['id'], 'symspec': symspec, 'name': name}
    is_seq = make_spec['fn'] == 'make_sequence'
    is_helper = make_spec['fn'].startswith('helpers.')
    what = rng.weighted([('save', 50), ('uri', 10), ('terminal', 8), ('miter', 14), ('reencode', 18)])
    if is_seq and what in ('uri', 'miter', 'reencode'):
        what = 'save'
    if is_helper and what == 'reencode':
        what = 'miter'
    content = core.dec(make_spec['content'])
    if what == 'reencode' and isinstance(content, list):
        what = 'save'
    if what == 'save':
        kind = rng.choice(opts.KINDS)
        skw = opts.gen_ser_opts(rng, kind, cli=False)
        if allow_bad and rng.random() < 0.08:
            skw.update(rng.choice(BAD_SER))
        route = rng.weighted([('stream', 45), ('path', 45), ('svgz', 10 if kind == 'svg' else 0)])
        if is_seq and route == 'stream' and kind in ('pdf',):
            route = 'path'   # several PDF documents in one stream: offsets refer to the sink position (documented as invalid)
        d = dict(base, op='save', kind=kind, skw=core.enc(skw), route=route)
        if route == 'path' and rng.random() < 0.3:
            d['ext'] = kind.upper()
        if route == 'stream' and rng.random() < 0.3:
            d['kind_spelling'] = kind.upper()
        return d
    if what == 'uri':
        which = rng.choice(('png_data_uri', 'svg_data_uri', 'svg_inline'))
        kind = 'png' if which == 'png_data_uri' else 'svg'
        skw = opts.gen_ser_opts(rng, kind, cli=False)
        if which == 'svg_inline':
            for k in ('xmldecl', 'svgns', 'nl'):
                skw.pop(k, None)
        return dict(base, op='uri', which=which, skw=core.enc(skw))
    if what == 'terminal':
        return dict(base, op='terminal', border=rng.choice((None, 0, 2)), compact=rng.random() < 0.5, out=rng.choice(('stream', 'stdout')))
    if what == 'miter':
        return dict(base, op='miter', scale=rng.choice((1, 1, 2, 3)), border=rng.choice((None, 0, 3)), verbose=rng.random() < 0.5,
                    consume=rng.choice(('all', 'half', 'list', 'interleaved', 'abandoned')), rows=rng.randint(1, 9))
    return dict(base, op='reencode')


def gen_cli(rng, name, allow_bad=True):
    kind = rng.choice(opts.KINDS)
    is_seq = rng.random() < 0.15
    content, mkw = opts.gen_symbol(rng, cli=True, seq=is_seq, maxlen=24)
    if allow_bad and rng.random() < 0.15:
        bad = rng.choice(({'version': 'M5'}, {'mask': 8}, {'version': 41}, {'mode': 'kanji'}, {'version': 'M1', 'error': 'H'}))
        mkw = dict(mkw, **bad)
    skw = opts.gen_ser_opts(rng, kind, cli=True)
    argv = opts.make_argv(mkw, seq=is_seq) + opts.ser_argv(skw)
    r = rng.random()
    if r < 0.75:
        argv.append('--output=d/%s.%s' % (name, kind if rng.random() < 0.8 else kind.upper()))
    elif r < 0.8 and kind == 'svg':
        argv.append('--output=d/%s.svgz' % name)
    elif rng.random() < 0.5:
        argv.append('--compact')
    argv.append(content)
    argv = opts.stylize(argv, rng.choice((0, rng.getrandbits(32))))
    return {'op': 'cli', 'argv': core.enc(argv), 'name': name}


def vary_make(rng, earlier, fresh):
    """A make-operation related to an earlier one -- history dependence shows on related calls: the same call
    again, the same content with other options, the content as part of a list, the first part of a list alone."""
    new = dict(fresh)
    how = rng.choice(('repeat', 'repeat', 'same_content', 'as_list', 'first_part', 'same_kw'))
    if earlier['fn'].startswith('helpers.') or fresh['fn'].startswith('helpers.'):
        how = 'repeat'
    content = core.dec(earlier['content']) if earlier['content'] is not None else None
    if how == 'repeat':
        new = dict(earlier, id=fresh['id'])
    elif how == 'same_content':
        new['content'] = earlier['content']
    elif how == 'same_kw':
        new['kw'] = earlier['kw']
        new['fn'] = earlier['fn']
    elif how == 'as_list' and isinstance(content, str) and content:
        k = rng.randint(1, len(content))
        new = dict(earlier, id=fresh['id'], content=core.enc([content[:k], content[k:]] if content[k:] else [content, content]))
    elif how == 'first_part' and isinstance(content, list) and content:
        new = dict(earlier, id=fresh['id'], content=core.enc(content[0]))
    else:
        new = dict(earlier, id=fresh['id'])
    return new


def vary_use(rng, earlier, fresh, makes):
    """A serialising operation related to an earlier one (same symbol and kind with other colours, same options
    on another symbol, the same call again, another kind with the shared options) -- state leaking between
    serialiser calls shows on related calls, not on unrelated ones."""
    if earlier['op'] != 'save':
        return dict(earlier, name=fresh['name']) if earlier['op'] in ('uri', 'terminal', 'miter') else fresh
    how = rng.choice(('repeat', 'recolour', 'recolour', 'other_symbol', 'other_kind', 'rescale'))
    kind = earlier['kind']
    skw = core.dec(earlier['skw'])
    new = dict(earlier, name=fresh['name'])
    if how == 'recolour':
        fresh_kw = opts.gen_ser_opts(rng, kind, cli=False)
        keep = {k: v for k, v in skw.items() if k in ('scale', 'border')}
        colours = {k: v for k, v in fresh_kw.items() if k in ('dark', 'light') or k in opts.MODULE_COLOR_KEYS}
        if kind in opts.COLORFUL_KINDS and not any(k in opts.MODULE_COLOR_KEYS for k in colours):
            colours[rng.choice(opts.MODULE_COLOR_KEYS)] = rng.choice(opts.RGB_COLORS)
        new['skw'] = core.enc(dict(keep, **colours))
    elif how == 'other_symbol':
        m = rng.choice(makes)
        new['sym'] = m['id']
        new['symspec'] = {'fn': m['fn'], 'content': m['content'], 'kw': m['kw']}
        if m['fn'] == 'make_sequence' and new['route'] == 'stream' and kind == 'pdf':
            new['route'] = 'path'
    elif how == 'other_kind':
        k2 = rng.choice([k for k in opts.KINDS if k != kind])
        base = opts.gen_ser_opts(rng, k2, cli=False)
        for k in ('scale', 'border'):
            if k in skw and (k != 'scale' or (k2 not in ('txt', 'ans') and (k2 in opts.VECTOR_KINDS or isinstance(skw[k], int)))):
                base[k] = skw[k]
        # the same colours through another writer (colour parsing is shared between writers)
        if k2 in ('svg', 'png'):
            for k in ('dark', 'light') + (opts.MODULE_COLOR_KEYS if kind in opts.COLORFUL_KINDS else ()):
                if k in skw:
                    base[k] = skw[k]
        new.update(kind=k2, skw=core.enc(base))
        new.pop('ext', None)
        new.pop('kind_spelling', None)
        if new['route'] == 'svgz':
            new['route'] = 'path'
    elif how == 'rescale' and kind not in ('txt', 'ans'):
        skw2 = dict(skw)
        skw2['scale'] = rng.choice((1, 2, 3, 5))
        new['skw'] = core.enc(skw2)
    return new
