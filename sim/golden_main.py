"""Fresh-interpreter golden runner (used for the cross-process / other-PYTHONHASHSEED probe).
Reads a JSON list of operation specs on stdin, executes each alone in a forked pristine child
of this interpreter, prints the JSON list of results."""
import json
import os
import sys

sys.path.insert(0, os.path.dirname(os.path.dirname(os.path.abspath(__file__))))
from sim import core, c15  # noqa: E402

if __name__ == '__main__':
    specs = json.loads(sys.stdin.read())
    core.import_segno()
    out = [core.run_forked(c15.golden_of, (s,), timeout=300) for s in specs]
    sys.stdout.write(core.jdump(out))
