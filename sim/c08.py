"""C08 -- Structured Append sequences reassemble to the original message.

Sender: real segno.make_sequence. Network: sim.channel (reorder / duplicate / interleave two
messages / within-budget damage on every delivered copy). Receiver: sim.refqr + the
reference reassembler below (ISO 18004 clause 8 style).
"""
from functools import reduce
from . import core, gen, refqr, channel, known as known_mod

PROP = 'C08'
ASSUMPTIONS = [
    'sim.refqr (independent reader/decoder) and the reference reassembler in sim/c08.py are correct',
    'the expected message bytes follow C01: given bytes / decimal digits of an int / text in the requested encoding, '
    'else the first of ISO-8859-1, Shift JIS, UTF-8 that can represent it; GB2312 for hanzi',
    '"valid symbol in the sense of C02" is checked only as far as a standard reader needs it (size, format and version '
    'information within BCH/Golay correction distance, ISO function-pattern map); C02 itself is not claimed',
    'sender arguments are sampled; pairs of interleaved messages with identical (parity, total) are skipped because ISO '
    'parity cannot separate them',
]


class Reassembler:
    """Reference receiver: files payloads under (parity, total) by position, ignores exact
    duplicates, flags conflicting ones, delivers each complete message exactly once."""

    def __init__(self):
        self.partial = {}
        self.delivered = []
        self.done = set()
        self.conflicts = []

    def feed(self, payload, sa):
        if sa is None:
            self.delivered.append((None, payload))
            return
        pos, total, parity = sa
        key = (parity, total)
        slots = self.partial.setdefault(key, {})
        if pos > total:
            self.conflicts.append('position %d > total-1 %d' % (pos, total))
            return
        if pos in slots:
            if slots[pos] != payload:
                self.conflicts.append('two different payloads for position %d of %r' % (pos, key))
            return
        slots[pos] = payload
        if len(slots) == total + 1 and key not in self.done:
            self.done.add(key)
            self.delivered.append((key, b''.join(slots[i] for i in range(total + 1))))


def message_bytes(content, kw):
    """The bytes of the complete message as C01 defines them (None if not representable)."""
    if isinstance(content, bytes):
        return content
    s = str(content)
    mode = (kw.get('mode') or '').lower()
    try:
        if mode == 'hanzi':
            return s.encode('gb2312')
        if kw.get('encoding'):
            return s.encode(kw['encoding'])
    except (UnicodeError, LookupError):
        return None
    for e in ('iso-8859-1', 'shift_jis', 'utf-8'):
        try:
            return s.encode(e)
        except UnicodeError:
            pass
    return None


# ----------------------------------------------------------------------------------------
def _gen_message(rng, tier):
    maxv = 40 if tier == 'thorough' else 12
    kw = {}
    route = rng.weighted([('version', 45), ('symbol_count', 40), ('both', 8), ('neither', 3), ('bad', 4)])
    level = rng.choice('LMQH')
    if rng.random() < 0.8:
        kw['error'] = level if rng.random() < 0.8 else level.lower()
    else:
        level = 'L'
    if rng.random() < 0.5:
        kw['boost_error'] = False
    flavour = rng.weighted([('numeric', 16), ('alphanumeric', 16), ('ascii', 12), ('latin1', 8), ('bytes', 10), ('runs', 12), ('lookalike', 5),
                            ('kanji', 8), ('hanzi', 5), ('utf8', 8), ('sjis_mixed', 4), ('mixed_tail', 4), ('int', 6)])
    mode = {'numeric': 'numeric', 'alphanumeric': 'alphanumeric', 'kanji': 'kanji', 'hanzi': 'hanzi', 'int': 'numeric'}.get(flavour, 'byte')
    version = rng.randint(1, maxv) if rng.random() < 0.8 else rng.randint(1, min(maxv, 4))
    if tier == 'thorough' and rng.random() < 0.7:
        version = rng.randint(1, 10)
    cap = max(1, gen.capacity_chars(version, level, mode, extra_bits=20))
    if route in ('version', 'both'):
        nsym = rng.weighted([(1, 5), (2, 20), (3, 15), (rng.randint(4, 15), 35), (16, 18), (17, 7)])
        if rng.random() < 0.5:
            n = nsym * cap - rng.choice((0, 0, 1, 2, 3, 5, cap // 2))
        else:
            n = int(nsym * cap * rng.uniform(0.6, 1.0))
    else:
        n = int(rng.randint(1, 16) * cap * rng.uniform(0.05, 1.0))
    n = max(1, n)
    if rng.random() < 0.15:
        n = rng.randint(1, 24)     # tiny messages: the single-symbol shortcuts and the never-Micro clause live here
    if flavour == 'int':
        content = int(gen.text(rng, 'numeric', min(n, 400)).lstrip('0') or '7')
        if rng.random() < 0.15:
            content = -content
    elif flavour in ('numeric', 'alphanumeric', 'kanji', 'hanzi'):
        content = gen.text(rng, mode, n)
    elif flavour == 'lookalike':
        content = gen.kanji_lookalike(rng, max(1, min(n, 400) // 2))
        if rng.random() < 0.6:
            content = content.decode('latin1')
    elif flavour == 'runs':
        content = gen.runs_text(rng, n)
        if rng.random() < 0.3:
            content = content.encode('latin1')
    elif flavour in ('ascii', 'latin1', 'bytes'):
        content = gen.text(rng, 'byte', n, flavour)
    elif flavour == 'utf8':
        content = ''.join(rng.choice(gen.UNI + gen.ASCII) for _ in range(max(1, n // 2)))
    elif flavour == 'sjis_mixed':
        content = ''.join(rng.choice(gen.KANJI[:500] + list(gen.ASCII)) for _ in range(max(1, n // 2)))
    else:  # latin-1 text whose tail needs another encoding
        k = max(1, n // 2)
        content = ''.join(rng.choice(gen.LATIN1) for _ in range(k)) + ''.join(rng.choice(gen.UNI) for _ in range(max(1, k // 3)))
    if flavour == 'hanzi':
        kw['mode'] = 'hanzi'
    elif rng.random() < 0.12:
        kw['mode'] = rng.choice((mode, mode.upper(), 'byte'))
    if isinstance(content, str) and rng.random() < 0.15:
        kw['encoding'] = rng.choice(('utf-8', 'latin1', 'shift_jis', 'utf-16-le', 'cp1252', 'iso-8859-15'))
    if route in ('version', 'both'):
        kw['version'] = version if rng.random() < 0.9 else str(version)
    if route in ('symbol_count', 'both'):
        kw['symbol_count'] = rng.randint(1, 16) if rng.random() < 0.8 else rng.choice((1, 1, 2))
    if route == 'bad':
        kw.update(rng.choice(({'symbol_count': 0}, {'symbol_count': 17}, {'version': 'M3'}, {'version': 41},
                              {'symbol_count': -1}, {'version': 'm1', 'symbol_count': 2})))
    big = kw.get('version') is not None and str(kw['version']).isdigit() and int(kw['version']) > 8
    if big or route == 'symbol_count' and n > 300 or rng.random() < 0.5:
        kw['mask'] = rng.randrange(8)
    return {'content': core.enc(content), 'kw': core.enc(kw)}


def gen_scenario(batch_seed, i, tier):
    seed = core.derive_seed(batch_seed, PROP, i)
    rng = core.R(seed)
    msgs = [_gen_message(rng, tier)]
    if rng.random() < 0.2:
        msgs.append(_gen_message(rng, tier))
    return {'prop': PROP, 'seed': seed, 'index': i, 'messages': msgs,
            'delivery_kind': rng.choice(channel.DELIVERY_KINDS), 'delivery': None,
            'damage': rng.random() < 0.5, 'damage_kinds': [k for k in channel.DAMAGE_KINDS if rng.random() < 0.6] or ['cw_random'],
            'plan_seed': rng.getrandbits(48), 'plans': None}


def _viol(clause, msg, **detail):
    return {'clause': clause, 'msg': msg, 'detail': detail}


def _payload(parsed):
    return b''.join(p for m, p, e in parsed['segments'])


def check_sequence(segno, mi, content, kw, counters, viols):
    """Calls make_sequence and checks the per-sequence invariants. Returns list of per-symbol
    dicts (bits, rd, parsed or None) or None if the call was refused / raised."""
    try:
        seq = segno.make_sequence(content, **kw)
    except (ValueError, LookupError):
        counters['refused'] = counters.get('refused', 0) + 1
        return None
    except Exception as ex:  # C14's clause, only counted here
        k = 'other_exception_' + type(ex).__name__
        counters[k] = counters.get(k, 0) + 1
        return None
    n = len(seq)
    counters['sequences'] = counters.get('sequences', 0) + 1
    counters['symbols'] = counters.get('symbols', 0) + n
    bucket = counters.setdefault('symbols_per_sequence', {})
    bucket[str(n)] = bucket.get(str(n), 0) + 1
    d = dict(message=mi, n=n)
    if not 1 <= n <= 16:
        viols.append(_viol('c08.count', 'make_sequence returned %d symbols' % n, **d))
        return None
    want_v = kw.get('version')
    want_k = kw.get('symbol_count')
    if want_k is not None and want_v is None and n != want_k:
        viols.append(_viol('c08.shape', 'symbol_count=%d alone gave %d symbols' % (want_k, n), **d))
    syms = []
    expected = message_bytes(content, kw)
    parity = reduce(lambda a, b: a ^ b, expected, 0) if expected is not None else None
    unfit, invalid = [], []
    for i, qr in enumerate(seq):
        bits = channel.to_bits(qr.matrix)
        sym = {'bits': bits, 'rd': None, 'parsed': None}
        syms.append(sym)
        if qr.is_micro or len(bits) < 21:
            viols.append(_viol('c08.micro', 'symbol %d is a Micro QR symbol' % i, symbol=i, **d))
            continue
        try:
            rd = refqr.read_symbol(bits)
        except refqr.Unreadable as ex:
            invalid.append(i)
            viols.append(_viol('c08.valid', 'symbol %d/%d is not readable: %s' % (i, n, ex), symbol=i, **d))
            continue
        if want_v is not None and want_k is None and rd.version != int(want_v):
            viols.append(_viol('c08.shape', 'version=%s alone gave a version %s symbol (%d/%d)' % (want_v, rd.version, i, n), symbol=i, **d))
        if any(any(refqr.syndromes(blk, t - dd)) for blk, (t, dd) in zip(rd.blocks, rd.layout)):
            invalid.append(i)
            viols.append(_viol('c08.valid', 'symbol %d/%d (%s-%s) has blocks that are not RS codewords' % (i, n, rd.version, rd.level), symbol=i, **d))
            continue
        sym['rd'] = rd
        data = [c for blk, (t, dd) in zip(rd.blocks, rd.layout) for c in blk[:dd]]
        try:
            sym['parsed'] = refqr.parse_data(rd.version, data)
        except ValueError as ex:
            unfit.append((i, str(ex)))
    if unfit:
        rd0 = next((s['rd'] for s in syms if s['rd'] is not None), None)
        viols.append(_viol('c08.fit', 'symbol(s) %s of %d do not hold their declared data: %s'
                           % ([i for i, _ in unfit], n, unfit[0][1]), symbols=[i for i, _ in unfit],
                           version=rd0.version if rd0 else None, level=rd0.level if rd0 else None, **d))
    parities = set()
    for i, sym in enumerate(syms):
        p = sym['parsed']
        if p is None:
            continue
        if n > 1:
            if p['sa'] is None or p['sa_at'] != 0:
                viols.append(_viol('c08.header', 'symbol %d/%d does not start with a Structured Append header' % (i, n), symbol=i, **d))
                continue
            pos, total, par = p['sa']
            if pos != i or total != n - 1:
                viols.append(_viol('c08.header', 'symbol %d/%d carries position %d, total-1 %d' % (i, n, pos, total), symbol=i, **d))
            parities.add(par)
    if len(parities) > 1:
        viols.append(_viol('c08.header', 'parity differs between symbols: %s' % sorted(parities), **d))
    elif len(parities) == 1 and parity is not None and parities != {parity}:
        viols.append(_viol('c08.parity', 'parity byte is 0x%02x, XOR of the message bytes is 0x%02x' % (next(iter(parities)), parity),
                           got=next(iter(parities)), want=parity, **d))
    return syms


def execute(sc):
    segno = core.import_segno()
    counters = {'runs': 1}
    viols = []
    res = {'violations': viols, 'counters': counters, 'nontrivial': False, 'scenario': sc}
    log = []
    msgs = []
    for mi, m in enumerate(sc['messages']):
        content, kw = core.dec(m['content']), core.dec(m['kw'])
        syms = check_sequence(segno, mi, content, kw, counters, viols)
        msgs.append((content, kw, syms))
        log.append(['seq', mi, None if syms is None else len(syms)])
    live = [(mi, c, kw, syms) for mi, (c, kw, syms) in enumerate(msgs)
            if syms is not None and all(s['parsed'] is not None for s in syms)]
    blocked = sum(1 for c, kw, syms in msgs if syms is not None) - len(live)
    if blocked:
        counters['delivery_blocked_by_invalid_symbol'] = blocked
    # two messages that ISO parity cannot tell apart are not interleaved
    if len(live) == 2:
        keys = [set((s['parsed']['sa'] or (0, None, None))[1:] for s in syms) for _, _, _, syms in live]
        if keys[0] & keys[1]:
            counters['interleave_skipped_same_key'] = 1
            live = live[:1]
    # ---- delivery plan
    delivery = sc.get('delivery')
    prng = core.R(sc['plan_seed'])
    if delivery is None:
        lists = []
        for mi, c, kw, syms in live:
            kind = sc['delivery_kind']
            if len(syms) == 1 and syms[0]['parsed']['sa'] is None:
                kind = 'in_order'  # a symbol without SA header is a complete message: scanning it twice is two messages
            lists.append([[mi, j] for j in channel.make_delivery(prng, len(syms), kind)])
        delivery = []
        while any(lists):
            lst = prng.choice([x for x in lists if x])
            delivery.append(lst.pop(0))
    plans = sc.get('plans')
    explicit_plans = []
    rx = Reassembler()
    by_mi = {mi: syms for mi, c, kw, syms in live}
    fired = counters.setdefault('damage_fired', {})
    for di, (mi, j) in enumerate(delivery):
        if mi not in by_mi or j >= len(by_mi[mi]):
            continue
        sym = by_mi[mi][j]
        bits, rd = sym['bits'], sym['rd']
        plan = None
        if plans is not None:
            plan = plans[di] if di < len(plans) else None
        elif sc['damage']:
            st = sym.setdefault('st', channel.Structure(rd.size, rd.version, rd.level))
            plan = channel.make_damage(prng, st, bits, prng.choice(sc['damage_kinds']))
        explicit_plans.append(plan)
        rbits = bits
        if plan and plan['mods']:
            st = sym.setdefault('st', channel.Structure(rd.size, rd.version, rd.level))
            try:
                ok = channel.within_budget(st, bits, plan['mods'])
            except ValueError:
                ok = False
            if ok:
                rbits = channel.apply_damage(bits, plan['mods'])
                fired[plan['kind']] = fired.get(plan['kind'], 0) + 1
                res['nontrivial'] = True
        try:
            r2, data, parsed = refqr.decode(rbits)
        except ValueError as ex:
            viols.append(_viol('c08.valid', 'delivered copy %d of symbol %d (message %d) could not be decoded after within-budget '
                               'damage: %s' % (di, j, mi, ex), message=mi, symbol=j))
            continue
        rx.feed(_payload(parsed), parsed['sa'])
        counters['deliveries'] = counters.get('deliveries', 0) + 1
        log.append(['dlv', mi, j, None if plan is None else [plan['kind'], len(plan['mods'])]])
    order = [tuple(x) for x in delivery]
    if order != sorted(set(order)):
        res['nontrivial'] = True
        dk = counters.setdefault('delivery_nonidentity', {})
        dk[sc['delivery_kind']] = dk.get(sc['delivery_kind'], 0) + 1
    if len(live) == 2:
        counters['interleaved_two'] = 1
    # ---- history check
    if rx.conflicts:
        viols.append(_viol('c08.exactly_once', 'receiver saw conflicting symbols: %s' % rx.conflicts[0]))
    expected = []
    for mi, c, kw, syms in live:
        delivered_any = any(d[0] == mi for d in delivery)
        if delivered_any and all(any(d == [mi, j] or tuple(d) == (mi, j) for d in delivery) for j in range(len(syms))):
            expected.append((mi, message_bytes(c, kw)))
    got = [p for k, p in rx.delivered]
    if len(got) != len(expected):
        viols.append(_viol('c08.exactly_once', 'receiver delivered %d message(s), %d were completely sent' % (len(got), len(expected)),
                           message=live[0][0] if live else 0))
    else:
        remaining = list(got)
        for mi, exp in expected:
            if exp is None:
                counters['expected_bytes_undefined'] = counters.get('expected_bytes_undefined', 0) + 1
                continue
            if exp in remaining:
                remaining.remove(exp)
                counters['messages_reassembled'] = counters.get('messages_reassembled', 0) + 1
            else:
                cand = remaining[0] if len(remaining) == 1 else b''
                viols.append(_viol('c08.payload', 'message %d: reassembled bytes differ from the content bytes (%d vs %d bytes; first '
                                   'difference at %s)' % (mi, len(cand), len(exp), _first_diff(cand, exp)), message=mi))
    res['scenario'] = dict(sc, delivery=[list(d) for d in delivery], plans=explicit_plans)
    res['digest'] = core.digest(log + [[v['clause'] for v in viols]])
    m0 = sc['messages'][0]
    res['sample'] = {'content': m0['content'] if len(str(m0['content'])) < 160 else '<%d chars>' % len(str(m0['content'])),
                     'kw': m0['kw'], 'symbols': None if msgs[0][2] is None else len(msgs[0][2]),
                     'delivery': [list(d) for d in delivery][:40], 'damage': [None if p is None else p['kind'] for p in explicit_plans][:40]}
    return res


def _first_diff(a, b):
    for i, (x, y) in enumerate(zip(a, b)):
        if x != y:
            return i
    return min(len(a), len(b))


def signature(sc, v):
    m = sc['messages'][v['detail'].get('message', 0) or 0]
    kw = m['kw']
    c = core.dec(m['content'])
    return (type(c).__name__, 'version' in kw, 'symbol_count' in kw, 'encoding' in kw, kw.get('mode'))


def minimise(sc, viol, fails):
    cur = dict(sc)
    mi = viol['detail'].get('message', 0) or 0
    if len(cur['messages']) > 1:
        cand = dict(cur, messages=[cur['messages'][mi]], delivery=None, plans=None)
        if fails(cand):
            cur = cand
    for cand in (dict(cur, damage=False, plans=None, delivery=None, delivery_kind='in_order'),
                 dict(cur, damage=False, plans=None), dict(cur, delivery=None, delivery_kind='in_order', plans=None)):
        if fails(cand):
            cur = cand
            break
    # drop keyword arguments
    m = cur['messages'][0]
    kw = dict(m['kw'])
    for k in list(kw):
        if k in ('version', 'symbol_count'):
            continue
        kw2 = {x: y for x, y in kw.items() if x != k}
        cand = dict(cur, messages=[dict(m, kw=kw2)])
        if fails(cand):
            kw = kw2
            m = dict(m, kw=kw)
            cur = cand
    # shrink content (keeps the type)
    content = core.dec(m['content'])
    if isinstance(content, (str, bytes)):
        def with_content(c):
            return dict(cur, messages=[dict(m, content=core.enc(c))], delivery=None if cur.get('delivery') is None else None, plans=None)
        steps = 0
        while len(content) > 2 and steps < 60:
            steps += 1
            for cand_c in (content[:len(content) // 2], content[len(content) // 2:], content[:-1], content[1:]):
                if cand_c and fails(with_content(cand_c)):
                    content = cand_c
                    break
            else:
                break
        cur = with_content(content)
        # simplify characters
        if isinstance(content, str):
            for repl in ('1', 'A', 'a'):
                simp = ''.join(repl if ch not in '0123456789' or repl == '1' else ch for ch in content)
                if simp != content and fails(with_content(simp)):
                    content = simp
                    cur = with_content(content)
                    break
    return cur


def known(sc, viol):
    return known_mod.match(PROP, sc, viol)


def coverage_rule():
    return ('one run = one or two messages sent with real make_sequence (version route, symbol_count route, both, neither, '
            'malformed), delivered to the reference reader/reassembler under a seeded schedule (in order, reversed, shuffled, '
            'duplicated, duplicated+shuffled, two messages interleaved) with or without within-budget damage on each delivered '
            'copy; distinct = distinct event-log digest; non-trivial = non-identity delivery order or at least one damaged copy')


def tier_params(tier):
    if tier == 'quick':
        return {'runs': 2400, 'run_timeout': 300.0, 'wall_cap': 1500}
    return {'budget_s': 600, 'min_runs': 2400, 'run_timeout': 600.0, 'wall_cap': 3000}


def finish_coverage(cov, counters):
    cov['faults_fired'] = dict(counters.get('damage_fired', {}))
    cov['delivery_schedules'] = counters.get('delivery_nonidentity', {})
    cov['sim_time'] = 'not meaningful for this property: deliveries are ordered events without a clock'
