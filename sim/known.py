"""Known findings: genuine defects of heuer/segno that are recorded rather than repaired.

/verif/known_findings.json is committed and never written at run time. Every entry with
status "open" names a discriminator implemented below; a violation is covered by a finding
only if the discriminator, evaluated on the concrete failing case, says so. Entries with
status "fixed" suppress nothing.
"""
import json
import os

_PATH = os.path.join(os.path.dirname(os.path.dirname(os.path.abspath(__file__))), 'known_findings.json')
DISCRIMINATORS = {}


def discriminator(name):
    def deco(f):
        DISCRIMINATORS[name] = f
        return f
    return deco


def load():
    with open(_PATH) as f:
        return json.load(f)['findings']


def match(prop, sc, viol):
    for f in load():
        if f.get('status') != 'open' or f['property'] != prop or viol['clause'] not in f['clauses']:
            continue
        fn = DISCRIMINATORS.get(f['discriminator'])
        if fn is not None and fn(sc, viol):
            return {'id': f['id'], 'what': f['what']}
    return None


# ----------------------------------------------------------------------------------------
# D1: make_sequence(content, version=v) -- the symbol-count estimate is too small and the
# longest chunks are cut silently. Defect model: /verif's re-implementation of the estimate.
def d1_model(mode, nchars, version, level):
    """Returns (predicted overflowing symbol indices, predicted symbol count) or None if the
    estimate exceeds 16 symbols (then the call is refused, nothing is cut)."""
    import math
    from . import gen
    cap = gen.data_bits(version, level)
    rng = 0 if version < 10 else 1 if version < 27 else 2
    from . import refqr
    over = 4 + refqr.CCI[mode][rng] + 20
    if mode == 'numeric':
        q, r = divmod(nchars, 3)
        est = q * 10 + (4 if r == 1 else 7)
    else:
        est = gen.payload_bits(mode, nchars)
    est += over
    cnt = math.ceil(est / cap)
    est += 20 * (cnt - 1)
    num = math.ceil(est / cap)
    if num > 16 or num < 1:
        return None
    k, m = divmod(nchars, num)
    sizes = [k + (1 if i < m else 0) for i in range(num)]
    true_over = over + (4 if mode == 'hanzi' else 0)
    return [i for i, sz in enumerate(sizes) if true_over + gen.payload_bits(mode, sz) > cap], num


@discriminator('d1_version_route_estimate')
def _d1(sc, viol):
    from . import core, gen, c08
    d = viol['detail']
    m = sc['messages'][d.get('message', 0) or 0]
    content, kw = core.dec(m['content']), core.dec(m['kw'])
    if kw.get('version') is None or kw.get('symbol_count') is not None:
        return False
    try:
        version = int(kw['version'])
    except (TypeError, ValueError):
        return False
    data = c08.message_bytes(content, kw)
    if data is None:
        return False
    mode = (kw.get('mode') or '').lower() or gen.find_mode(data)
    if mode not in ('numeric', 'alphanumeric', 'byte', 'kanji', 'hanzi'):
        return False
    level = (kw.get('error') or 'L').upper()
    nchars = len(data) // (2 if mode in ('kanji', 'hanzi') else 1)
    pred = d1_model(mode, nchars, version, level)
    if pred is None:
        return False
    over, num = pred
    return bool(over) and num == d.get('n') and sorted(over) == sorted(d.get('symbols', []))


# ----------------------------------------------------------------------------------------
# D6: svg_data_uri re-quotes attributes ("..." -> '...') before percent-encoding (intended
# upstream: shorter URIs). The decoded URI is therefore never byte-identical to the saved SVG.
_D6_RX = None


def d6_quote_substitution(reference):
    """/verif's own statement of exactly that substitution, applied to the reference document."""
    import re
    global _D6_RX
    if _D6_RX is None:
        _D6_RX = re.compile(rb'(=)"([^"]+)"')
    return _D6_RX.sub(rb"\1'\2'", reference)


@discriminator('d6_svg_data_uri_quotes')
def _d6(sc, viol):
    d = viol['detail']
    return d.get('route') == 'svg_uri' and d.get('equal_after_d6_substitution') is True
