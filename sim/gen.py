"""Seeded generators for contents and sender arguments (shared by all properties).

Everything is drawn from the one PRNG handed in; nothing here looks at segno.
Capacities come from /verif's own ISO tables in refqr.
"""
from . import refqr

DIGITS = '0123456789'
ALNUM = refqr.ALNUM
LATIN1 = ''.join(chr(c) for c in list(range(0x20, 0x7f)) + list(range(0xa1, 0x100)))
ASCII = ''.join(chr(c) for c in range(0x20, 0x7f))
UNI = 'äöüßéèñçøåΩπλжщюあいう漢字語中文한글€→✓'


def _dbcs(codec, ranges, lo2, hi2):
    out = []
    for a, b in ranges:
        for code in range(a, b + 1):
            hi, lo = code >> 8, code & 0xff
            if not lo2 <= lo <= hi2 or lo == 0x7f:
                continue
            raw = bytes((hi, lo))
            try:
                ch = raw.decode(codec)
            except UnicodeError:
                continue
            if len(ch) == 1 and ch.encode(codec) == raw:
                out.append(ch)
    return out


KANJI = _dbcs('shift_jis', [(0x8140, 0x9ffc), (0xe040, 0xebbf)], 0x40, 0xfc)
HANZI = _dbcs('gb2312', [(0xa1a1, 0xaafe), (0xb0a1, 0xfafe)], 0xa1, 0xfe)

QR_MODES = ('numeric', 'alphanumeric', 'byte', 'kanji', 'hanzi')
MICRO_MODES = {'M1': ('numeric',), 'M2': ('numeric', 'alphanumeric'),
               'M3': ('numeric', 'alphanumeric', 'byte', 'kanji'),
               'M4': ('numeric', 'alphanumeric', 'byte', 'kanji')}
LAYOUTS = [(v, l) for v, l in refqr.MICRO_SYMBOL_NUMBER] + [(v, l) for v in range(1, 41) for l in 'LMQH']


def data_bits(version, level):
    if isinstance(version, str):
        return refqr.MICRO[(version, level)][2]
    return 8 * sum(d for t, d in refqr.block_layout(version, level))


def header_bits(version, mode):
    if isinstance(version, str):
        mi = int(version[1]) - 1
        return mi + refqr.MICRO_CCI[mode][mi]
    rng = 0 if version < 10 else 1 if version < 27 else 2
    return 4 + refqr.CCI[mode][rng] + (4 if mode == 'hanzi' else 0)


def payload_bits(mode, n):
    if mode == 'numeric':
        return (n // 3) * 10 + (0, 4, 7)[n % 3]
    if mode == 'alphanumeric':
        return (n // 2) * 11 + (6 if n % 2 else 0)
    if mode == 'byte':
        return 8 * n
    return 13 * n


def capacity_chars(version, level, mode, extra_bits=0):
    """Number of characters (bytes for byte mode) of `mode` that fit ISO capacity."""
    b = data_bits(version, level) - header_bits(version, mode) - extra_bits
    if b < 0:
        return 0
    if mode == 'numeric':
        r = b % 10
        n = 3 * (b // 10) + (2 if r >= 7 else 1 if r >= 4 else 0)
    elif mode == 'alphanumeric':
        n = 2 * (b // 11) + (1 if b % 11 >= 6 else 0)
    elif mode == 'byte':
        n = b // 8
    else:
        n = b // 13
    if isinstance(version, str):
        mi = int(version[1]) - 1
        n = min(n, (1 << refqr.MICRO_CCI[mode][mi]) - 1)
    return n


def text(rng, mode, n, flavour=None):
    """Returns content (str or bytes) of n characters representable in `mode`."""
    if mode == 'numeric':
        return ''.join(rng.choice(DIGITS) for _ in range(n))
    if mode == 'alphanumeric':
        return ''.join(rng.choice(ALNUM) for _ in range(n))
    if mode == 'kanji':
        return ''.join(rng.choice(KANJI) for _ in range(n))
    if mode == 'hanzi':
        return ''.join(rng.choice(HANZI) for _ in range(n))
    flavour = flavour or rng.choice(('ascii', 'latin1', 'bytes', 'bytes'))
    if flavour == 'ascii':
        return ''.join(rng.choice(ASCII) for _ in range(n))
    if flavour == 'latin1':
        return ''.join(rng.choice(LATIN1) for _ in range(n))
    return bytes(rng.randrange(256) for _ in range(n))


def length_near(rng, cap):
    """Length in 1..cap biased towards the boundaries (exact fit, one below) and small values."""
    if cap <= 1:
        return max(cap, 1)
    x = rng.random()
    if x < 0.3:
        return cap
    if x < 0.45:
        return cap - 1
    if x < 0.6:
        return rng.randint(1, min(cap, 8))
    return rng.randint(1, cap)


def find_mode(data):
    """ISO mode selection for one part (numeric < alphanumeric < kanji < byte), on message bytes."""
    if data and all(0x30 <= b <= 0x39 for b in data):
        return 'numeric'
    al = set(ALNUM.encode('ascii'))
    if data and all(b in al for b in data):
        return 'alphanumeric'
    if data and len(data) % 2 == 0:
        ok = True
        for i in range(0, len(data), 2):
            code = (data[i] << 8) | data[i + 1]
            if not (0x8140 <= code <= 0x9ffc or 0xe040 <= code <= 0xebbf) or not 0x40 <= data[i + 1] <= 0xfc or data[i + 1] == 0x7f:
                ok = False
                break
        if ok:
            return 'kanji'
    return 'byte'


NEAR_ALNUM_EXTRA = ',;!#&\'()=?@[]_<>"~^`|{}abcxyz'


def near_text(rng, n):
    """Content that is *almost* numeric / alphanumeric: one or two characters outside the compact alphabet
    (mode detection and the per-mode encoders meet at these boundaries)."""
    base = rng.choice(('numeric', 'alphanumeric'))
    chars = list(text(rng, base, max(1, n)))
    for _ in range(rng.choice((1, 1, 2))):
        pool = NEAR_ALNUM_EXTRA if base == 'alphanumeric' else ALNUM[10:] + ',.- '
        chars[rng.randrange(len(chars))] = rng.choice(pool)
    return ''.join(chars)


def runs_text(rng, n):
    """Text made of runs of different density classes (digits / alphanumeric / lower-case text / Latin-1), 1..30
    characters each: the mode of a part of the message differs from the mode of the whole."""
    out = []
    total = 0
    while total < n:
        k = min(n - total, rng.randint(1, 30))
        cls = rng.choice(('numeric', 'numeric', 'alphanumeric', 'ascii', 'latin1'))
        if cls in ('numeric', 'alphanumeric'):
            out.append(text(rng, cls, k))
        else:
            out.append(text(rng, 'byte', k, cls))
        total += k
    return ''.join(out)


def kanji_lookalike(rng, npairs):
    """ISO 8859-1 text (or bytes) whose byte pairs look like Shift JIS double-byte characters: lead byte in
    81-9F / E0-EB, trail byte anything -- valid trail bytes (40-FC, not 7F) and invalid ones mixed. The boundary
    between kanji detection and byte mode."""
    out = bytearray()
    for _ in range(max(1, npairs)):
        lead = rng.choice((rng.randint(0x81, 0x9f), rng.randint(0xe0, 0xeb)))
        r = rng.random()
        if r < 0.5:
            trail = rng.randint(0x40, 0xfc)
        elif r < 0.8:
            trail = rng.randint(0x20, 0x3f)
        else:
            trail = rng.choice((0x7f, 0xfd, 0xfe, 0xff, 0x00, 0x30))
        out += bytes((lead, trail))
    return bytes(out)
