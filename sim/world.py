"""The simulated world around segno: clock, file system, caller-supplied sinks, process.

Seams (no hook in /repo is needed, all are module-global name look-ups in segno.writers):
  writers.open  -> SimFS.open           (shadows the builtin for that module only)
  writers.time  -> SimClock             (strftime / timezone / time)
  writers.gzip  -> GzipShim             (gzip.open onto SimFS, mtime from SimClock)
  sys.stdout / sys.stderr -> SimTextStream via SimProc
Everything is explicit and deterministic: fault plans and clock deltas are lists in the
scenario; nothing here draws random numbers or reads a real clock.
"""
import errno as _errno
import gzip as _real_gzip
import io
import os
import sys
import time as _real_time
import traceback

ERRNOS = {'EACCES': _errno.EACCES, 'ENOENT': _errno.ENOENT, 'ENOSPC': _errno.ENOSPC, 'EIO': _errno.EIO,
          'EROFS': _errno.EROFS, 'EPIPE': _errno.EPIPE, 'EDQUOT': _errno.EDQUOT, 'EISDIR': _errno.EISDIR}


def make_oserror(name, path=None):
    code = ERRNOS[name]
    cls = {'EACCES': PermissionError, 'ENOENT': FileNotFoundError, 'EPIPE': BrokenPipeError,
           'EISDIR': IsADirectoryError}.get(name, OSError)
    if path is not None:
        return cls(code, os.strerror(code), path)
    return cls(code, os.strerror(code))


class SimClock:
    """Stands in for the `time` module inside segno.writers (and for gzip's mtime)."""

    def __init__(self, t0=1790000000.0, tz=0, mode='frozen', deltas=()):
        self.now = float(t0)
        self.timezone = int(tz)      # seconds WEST of UTC, like time.timezone
        self.altzone = int(tz)
        self.daylight = 0
        self.mode = mode
        self.deltas = list(deltas) or [0]
        self.reads = 0
        self.span = 0.0
        self.jumps = 0

    def _read(self):
        t = self.now
        self.reads += 1
        if self.mode == 'jumping':
            self.advance(self.deltas[self.reads % len(self.deltas)])
        return t

    def advance(self, d):
        if d:
            self.now += d
            self.span += abs(d)
            self.jumps += 1

    def time(self):
        return self._read()

    def time_ns(self):
        return int(self._read() * 1e9)

    def gmtime(self, secs=None):
        return _real_time.gmtime(self._read() if secs is None else secs)

    def localtime(self, secs=None):
        return _real_time.gmtime((self._read() if secs is None else secs) - self.timezone)

    def strftime(self, fmt, t=None):
        if t is None:
            t = self.localtime()
        return _real_time.strftime(fmt, t)

    def sleep(self, secs):
        self.advance(secs)

    def monotonic(self):
        # never goes backwards, but jumps forward with the simulated clock (a stalled process, a suspended VM)
        t = self._read()
        self._mono = max(getattr(self, '_mono', t), t)
        return self._mono

    perf_counter = monotonic
    process_time = monotonic

    def monotonic_ns(self):
        return int(self.monotonic() * 1e9)

    perf_counter_ns = monotonic_ns

    def __getattr__(self, name):
        if name in ('struct_time', 'mktime', 'tzname'):
            return getattr(_real_time, name)
        raise AttributeError('SimClock: time.%s is not simulated' % name)


# ----------------------------------------------------------------------------------------
class FaultPlan:
    """Explicit list of sink faults: {'op': 'open'|'write'|'close'|'tell', 'target': substring of the
    sink name or '*', 'nth': ordinal (0-based) among matching calls, 'errno': name, 'short': bool}.
    Each fault fires at most once; fired faults are recorded."""

    def __init__(self, faults=()):
        self.faults = [dict(f) for f in faults]
        self.counts = {}
        self.fired = []

    def check(self, op, name):
        for fi, f in enumerate(self.faults):
            if f.get('done') or f['op'] != op:
                continue
            tgt = f.get('target', '*')
            if tgt != '*' and tgt not in str(name):
                continue
            key = (fi,)
            n = self.counts.get(key, 0)
            self.counts[key] = n + 1
            if n == f.get('nth', 0):
                f['done'] = True
                self.fired.append({'op': op, 'name': str(name), 'errno': f.get('errno'), 'short': bool(f.get('short'))})
                return f
        return None


class SimRaw(io.RawIOBase):
    """A file of the simulated file system (raw layer; buffering is stacked on top like open() does)."""

    def __init__(self, fs, path, append=False):
        super().__init__()
        self.fs = fs
        self.path = path
        self.name = path
        self.buf = bytearray(fs.files.get(path, b'') if append else b'')
        self.mode = 'wb'
        fs.state[path] = {'closed': False, 'close_ok': False, 'writes': 0}
        fs.files[path] = bytes(self.buf)

    def writable(self):
        return True

    def seekable(self):
        return True

    def readable(self):
        return False

    def tell(self):
        return len(self.buf)

    def seek(self, pos, whence=0):
        if (whence, pos) in ((0, len(self.buf)), (1, 0), (2, 0)):
            return len(self.buf)
        raise io.UnsupportedOperation('SimRaw: seek(%r, %r)' % (pos, whence))

    def write(self, b):
        if self.closed:
            raise ValueError('write to closed file')
        data = bytes(b)
        st = self.fs.state[self.path]
        f = self.fs.plan.check('write', self.path)
        if f is not None:
            if f.get('short') and len(data) > 1:
                data = data[:len(data) // 2]   # legal short write at the raw layer
            else:
                self.fs.log('write-fault', self.path, f['errno'])
                raise make_oserror(f['errno'], self.path)
        self.buf += data
        st['writes'] += 1
        self.fs.files[self.path] = bytes(self.buf)
        self.fs.log('write', self.path, len(data))
        return len(data)

    def close(self):
        if self.closed:
            return
        st = self.fs.state[self.path]
        f = self.fs.plan.check('close', self.path)
        super().close()
        st['closed'] = True
        if f is not None:
            self.fs.log('close-fault', self.path, f['errno'])
            raise make_oserror(f['errno'], self.path)
        st['close_ok'] = True
        self.fs.log('close', self.path, len(self.buf))


class SimFS:
    """In-memory file system. files[path] = bytes written so far; state[path] = closed / close_ok."""

    def __init__(self, plan=None, bufsize=8192, eventlog=None):
        self.files = {}
        self.state = {}
        self.plan = plan or FaultPlan()
        self.bufsize = bufsize
        self.events = eventlog if eventlog is not None else []
        self.handles = []

    def log(self, *ev):
        self.events.append(list(ev))

    def open(self, path, mode='r', buffering=-1, encoding=None, errors=None, newline=None, **kw):
        path = os.fspath(path)
        if not isinstance(path, str):
            raise TypeError('SimFS: path must be str, got %r' % type(path))
        if 'r' in mode and '+' not in mode:
            raise make_oserror('ENOENT', path) if path not in self.files else io.UnsupportedOperation('SimFS: reading is not simulated')
        f = self.plan.check('open', path)
        if f is not None:
            self.log('open-fault', path, f['errno'])
            raise make_oserror(f['errno'], path)
        if path == '' or path.endswith('/'):
            raise make_oserror('EISDIR' if path else 'ENOENT', path)
        self.log('open', path, mode)
        raw = SimRaw(self, path, append='a' in mode)
        self.handles.append(raw)
        if 'b' in mode:
            if encoding is not None:
                raise ValueError("binary mode doesn't take an encoding argument")
            if buffering == 0:
                return raw
            return io.BufferedWriter(raw, buffer_size=max(self.bufsize, 1))
        buffered = io.BufferedWriter(raw, buffer_size=max(self.bufsize, 1))
        return io.TextIOWrapper(buffered, encoding=encoding or 'utf-8', errors=errors, newline=newline)

    def created(self):
        return sorted(self.files)

    def open_handles(self):
        return [p for p, st in self.state.items() if not st['closed']]

    def complete(self, path):
        st = self.state.get(path)
        return bool(st and st['closed'] and st['close_ok'])


class GzipShim:
    """Stands in for the gzip module inside segno.writers."""

    def __init__(self, fs, clock):
        self.fs, self.clock = fs, clock

    def open(self, filename, mode='rb', compresslevel=9, **kw):
        if hasattr(filename, 'write'):
            return _real_gzip.GzipFile(fileobj=filename, mode=mode, compresslevel=compresslevel, mtime=int(self.clock.time()) % 2 ** 32)
        under = self.fs.open(filename, 'wb')
        try:
            g = _SimGzipFile(filename=os.path.basename(filename), mode=mode, compresslevel=compresslevel,
                             fileobj=under, mtime=int(self.clock.time()) % 2 ** 32)
        except BaseException:
            under.close()
            raise
        g._under = under
        return g

    def __getattr__(self, name):
        return getattr(_real_gzip, name)


class _SimGzipFile(_real_gzip.GzipFile):
    _under = None

    def close(self):
        try:
            super().close()
        finally:
            if self._under is not None:
                u, self._under = self._under, None
                u.close()


# ----------------------------------------------------------------------------------------
class SimStream:
    """Caller-supplied sink. kind: 'binary' or 'text'. Optional name, optional non-seekable,
    fault plan (ops 'write', 'tell' matched against the stream's label)."""

    def __init__(self, kind='binary', name=None, seekable=True, plan=None, label='stream', prefill=b''):
        self.kind = kind
        if name is not None:
            self.name = name
        self._seekable = seekable
        self.plan = plan or FaultPlan()
        self.label = label
        self.parts = [prefill] if prefill else []
        self.closed = False
        self.writes = 0

    def write(self, data):
        if self.kind == 'binary' and isinstance(data, str):
            raise TypeError("a bytes-like object is required, not 'str'")
        if self.kind == 'text' and not isinstance(data, str):
            raise TypeError('string argument expected, got %r' % type(data).__name__)
        f = self.plan.check('write', self.label)
        if f is not None:
            raise make_oserror(f['errno'])
        self.parts.append(bytes(data) if self.kind == 'binary' else data)
        self.writes += 1
        return len(data)

    def writelines(self, lines):
        for ln in lines:
            self.write(ln)

    def tell(self):
        if not self._seekable:
            raise io.UnsupportedOperation('underlying stream is not seekable')
        f = self.plan.check('tell', self.label)
        if f is not None:
            raise make_oserror(f['errno'])
        return sum(len(p) for p in self.parts)

    def seekable(self):
        return self._seekable

    def writable(self):
        return True

    def flush(self):
        f = self.plan.check('flush', self.label)
        if f is not None:
            raise make_oserror(f['errno'])

    def close(self):
        self.closed = True

    def getvalue(self):
        return (b'' if self.kind == 'binary' else '').join(self.parts)


class SimTextStream(SimStream):
    """stdout / stderr of the simulated process."""

    encoding = 'utf-8'

    def __init__(self, plan=None, label='stdout'):
        super().__init__('text', plan=plan, label=label)

    def isatty(self):
        return False

    def fileno(self):
        raise io.UnsupportedOperation('fileno')


class OsShim:
    """Stands in for the `os` module inside segno.writers / segno.cli *if* they use it on output files (they do not at
    the pinned commit; a change that writes to a temporary name and renames it would): rename/replace/remove act on
    SimFS, everything else is the real module."""

    def __init__(self, fs):
        self._fs = fs
        self.path = _OsPathShim(fs)

    def replace(self, src, dst):
        fs = self._fs
        src, dst = os.fspath(src), os.fspath(dst)
        if src not in fs.files:
            raise make_oserror('ENOENT', src)
        f = fs.plan.check('rename', dst)
        if f is not None:
            raise make_oserror(f['errno'], dst)
        fs.files[dst] = fs.files.pop(src)
        fs.state[dst] = fs.state.pop(src)
        fs.log('rename', src, dst)

    rename = replace

    def remove(self, path):
        fs = self._fs
        path = os.fspath(path)
        if path not in fs.files:
            raise make_oserror('ENOENT', path)
        del fs.files[path]
        fs.state.pop(path, None)
        fs.log('remove', path)

    unlink = remove

    def fsync(self, fd):
        return None

    def __getattr__(self, name):
        return getattr(os, name)


class _OsPathShim:
    def __init__(self, fs):
        self._fs = fs

    def exists(self, p):
        return os.fspath(p) in self._fs.files

    isfile = exists

    def getsize(self, p):
        p = os.fspath(p)
        if p not in self._fs.files:
            raise make_oserror('ENOENT', p)
        return len(self._fs.files[p])

    def __getattr__(self, name):
        return getattr(os.path, name)


class World:
    """One simulated environment: clock + file system (+ gzip shim), installed into segno.writers."""

    def __init__(self, clock=None, faults=(), bufsize=8192):
        self.events = []
        self.clock = clock or SimClock()
        self.plan = FaultPlan(faults)
        self.fs = SimFS(self.plan, bufsize=bufsize, eventlog=self.events)
        self.gzip = GzipShim(self.fs, self.clock)

    def install(self):
        from segno import writers
        writers.open = self.fs.open
        writers.time = self.clock
        writers.gzip = self.gzip
        if 'os' in vars(writers):      # not at the pinned commit; see OsShim
            writers.os = OsShim(self.fs)
        # any other segno module that reads a clock (none does at the pinned commit) gets the simulated one too
        for name, mod in list(sys.modules.items()):
            if name.startswith('segno.') and name != 'segno.writers' and getattr(mod, 'time', None) is _real_time:
                mod.time = self.clock
        return self

    @staticmethod
    def uninstall():
        from segno import writers
        if 'open' in vars(writers):
            del writers.open
        writers.time = _real_time
        writers.gzip = _real_gzip


class StdProxy:
    """Installed once per run as sys.stdout / sys.stderr when several simulated clients share the
    process: routes every write to the stream of the client whose thread is writing, so that two
    clients printing "at once" collide in segno (if at all), never in the harness."""

    encoding = 'utf-8'

    def __init__(self, current):
        self.current = current     # callable -> stream of the calling client

    def write(self, s):
        return self.current().write(s)

    def writelines(self, lines):
        self.current().writelines(lines)

    def flush(self):
        self.current().flush()

    def isatty(self):
        return False


def run_cli(argv, plan=None, stdout=None, stderr=None, swap=True):
    """SimProc: runs segno.cli.main(argv) as a process would: returns dict(status, stdout, stderr,
    traceback (bool), exc (repr or None)). With swap=False sys.stdout/sys.stderr are StdProxy objects
    already routing to `stdout`/`stderr`."""
    from segno import cli
    out = stdout or SimTextStream(plan, 'stdout')
    err = stderr or SimTextStream(plan, 'stderr')
    so, se = sys.stdout, sys.stderr
    if swap:
        sys.stdout, sys.stderr = out, err
    tb = False
    exc = None
    try:
        try:
            rc = cli.main(list(argv))
            status = 0 if rc is None else rc
        except SystemExit as ex:
            code = ex.code
            if code is None:
                status = 0
            elif isinstance(code, int):
                status = code
            else:
                err.parts.append(str(code) + '\n')
                status = 1
        except BaseException as ex:  # noqa -- what the interpreter does with an uncaught exception
            if type(ex).__name__ in ('SimAbort', 'StepBudgetExceeded'):
                raise
            status = 1
            tb = True
            exc = '%s: %s' % (type(ex).__name__, ex)
            if isinstance(ex, ValueError):   # incl. UnicodeError; reported uniformly so callers can classify
                exc = 'ValueError: ' + exc
            try:
                err.parts.append(''.join(traceback.format_exception_only(type(ex), ex)))
            except Exception:
                pass
    finally:
        if swap:
            sys.stdout, sys.stderr = so, se
    return {'status': status, 'stdout': out.getvalue(), 'stderr': err.getvalue(), 'traceback': tb, 'exc': exc,
            'stdout_writes': getattr(out, 'writes', 0)}
