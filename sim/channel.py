"""The medium between segno (sender) and the reference reader (receiver).

Damage plans are explicit lists of module operations [row, col, v] with v = 0 (force light),
1 (force dark), 2 (invert), applied to *copies* of the sender's matrix; only modules of the
encoding region are ever touched. Delivery plans for Structured Append sequences are
explicit lists of symbol indices. All choices come from the PRNG handed in.
"""
from . import refqr

DAMAGE_KINDS = ('cw_random', 'cw_burst', 'rect', 'bit', 'ecc_only', 'data_only', 'stuck_light',
                'max_all', 'half_cw')


class Structure:
    """ISO structure of a symbol of given size/version/level (from refqr, not from segno)."""

    def __init__(self, size, version, level):
        self.size, self.version, self.level = size, version, level
        self.order, self.layout, self.cw_modules, self.cw_block = refqr.symbol_structure(size, version, level)
        self.budget = [(t - d) // 2 for t, d in self.layout]
        self.mod2cw = {}
        for k, mods in enumerate(self.cw_modules):
            for rc in mods:
                self.mod2cw[rc] = k
        self.by_block = [[] for _ in self.layout]
        for k, (b, i) in enumerate(self.cw_block):
            self.by_block[b].append(k)
        self.ndata = sum(d for t, d in self.layout)


def to_bits(matrix):
    return [[1 if x else 0 for x in row] for row in matrix]


def apply_damage(bits, mods):
    out = [row[:] for row in bits]
    for r, c, v in mods:
        out[r][c] = (1 - out[r][c]) if v == 2 else v
    return out


def errors_per_block(st, bits, mods):
    """Number of distinct codewords actually changed, per block."""
    changed = set()
    cur = {}
    for r, c, v in mods:
        old = cur.get((r, c), bits[r][c])
        cur[(r, c)] = (1 - old) if v == 2 else v
    for (r, c), new in cur.items():
        if new != bits[r][c]:
            k = st.mod2cw.get((r, c))
            if k is None:
                raise ValueError('damage outside the encoding region at %r' % ((r, c),))
            changed.add(k)
    per = [0] * len(st.layout)
    for k in changed:
        per[st.cw_block[k][0]] += 1
    return per


def within_budget(st, bits, mods, over=None):
    per = errors_per_block(st, bits, mods)
    return all(n <= st.budget[b] for b, n in enumerate(per))


def _xor_cw(st, k, rng, mods):
    cells = st.cw_modules[k]
    n = len(cells)
    x = rng.randrange(1, 1 << n)
    for j, (r, c) in enumerate(cells):
        if x >> (n - 1 - j) & 1:
            mods.append([r, c, 2])


def make_damage(rng, st, bits, kind, over_budget_block=None):
    """Returns an explicit damage plan {'kind', 'mods'} that stays within floor(ec/2) changed
    codewords in every block (or, if over_budget_block is given, exceeds it by one there)."""
    mods = []
    budget = list(st.budget)
    if over_budget_block is not None:
        budget[over_budget_block] += 1
        kind = 'max_all' if kind not in ('cw_random', 'max_all') else kind

    def pick_in_blocks(filter_fn, exact):
        for b, ks in enumerate(st.by_block):
            cand = [k for k in ks if filter_fn(k)]
            t = min(budget[b], len(cand))
            if exact or b == over_budget_block:
                n = t
            else:
                n = rng.randint(0, t) if rng.random() < 0.5 else t
            for k in rng.sample(cand, n):
                yield k

    if kind in ('cw_random', 'max_all'):
        for k in pick_in_blocks(lambda k: True, kind == 'max_all'):
            _xor_cw(st, k, rng, mods)
    elif kind == 'ecc_only':
        for k in pick_in_blocks(lambda k: k >= st.ndata, False):
            _xor_cw(st, k, rng, mods)
    elif kind == 'data_only':
        for k in pick_in_blocks(lambda k: k < st.ndata, False):
            _xor_cw(st, k, rng, mods)
    elif kind == 'bit':
        for k in pick_in_blocks(lambda k: True, False):
            r, c = rng.choice(st.cw_modules[k])
            mods.append([r, c, 2])
    elif kind == 'stuck_light':
        for k in pick_in_blocks(lambda k: True, False):
            for r, c in st.cw_modules[k]:
                mods.append([r, c, 0])
    elif kind == 'half_cw':
        # prefer the 4-bit codeword of M1/M3 if there is one, else the last data codeword
        k = st.ndata - 1
        if budget[st.cw_block[k][0]] > 0:
            _xor_cw(st, k, rng, mods)
    elif kind == 'cw_burst':
        n = len(st.cw_modules)
        start = rng.randrange(n)
        used = [0] * len(st.layout)
        k = start
        maxlen = rng.randint(1, max(1, sum(budget)))
        cnt = 0
        while k < n and cnt < maxlen:
            b = st.cw_block[k][0]
            if used[b] + 1 > budget[b]:
                break
            used[b] += 1
            for r, c in st.cw_modules[k]:
                mods.append([r, c, 2])
            k += 1
            cnt += 1
    elif kind == 'rect':
        size = st.size
        v = rng.choice((0, 1, 2))
        h = rng.randint(1, max(1, size // 3))
        w = rng.randint(1, max(1, size // 3))
        r0 = rng.randrange(size - h + 1)
        c0 = rng.randrange(size - w + 1)
        while True:
            mods = [[r, c, v] for r in range(r0, r0 + h) for c in range(c0, c0 + w) if (r, c) in st.mod2cw]
            per = errors_per_block(st, bits, mods)
            if all(n <= budget[b] for b, n in enumerate(per)):
                break
            if h >= w and h > 1:
                h -= 1
            elif w > 1:
                w -= 1
            elif h > 1:
                h -= 1
            else:
                mods = []
                break
    else:
        raise ValueError(kind)
    return {'kind': kind, 'mods': mods}


# ----------------------------------------------------------------------------------------
DELIVERY_KINDS = ('in_order', 'reverse', 'shuffle', 'duplicate', 'dup_shuffle')


def make_delivery(rng, n, kind):
    """Returns a list of symbol indices (each index at least once)."""
    idx = list(range(n))
    if kind == 'in_order':
        return idx
    if kind == 'reverse':
        return idx[::-1]
    if kind == 'shuffle':
        rng.shuffle(idx)
        return idx
    if kind == 'duplicate':
        out = []
        for i in idx:
            out.extend([i] * rng.choice((1, 1, 2, 3)))
        return out
    if kind == 'dup_shuffle':
        out = []
        for i in idx:
            out.extend([i] * rng.choice((1, 1, 2, 3)))
        rng.shuffle(out)
        return out
    raise ValueError(kind)
