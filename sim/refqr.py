"""Independent ISO/IEC 18004 reference reader for /verif (the receiver / oracle).

Written from the standard's rules, NOT derived from segno: function-pattern map from the
placement rules (alignment positions by formula), format word validated against a
BCH(15,5) encoder, version word against the (18,6) Golay encoder, unmasking by Table 10,
zig-zag read-out, de-interleaving by this file's own copy of Table 9, GF(256) from 0x11D,
Berlekamp-Massey + Chien + Forney, and a bit-stream parser (numeric / alphanumeric /
byte / kanji / hanzi / ECI / Structured Append; Micro QR indicator lengths).
It never imports segno.
"""

# ---------------- GF(256) -----------------
EXP = [0] * 512
LOG = [0] * 256
_x = 1
for _i in range(255):
    EXP[_i] = _x
    LOG[_x] = _i
    _x <<= 1
    if _x & 0x100:
        _x ^= 0x11d
for _i in range(255, 512):
    EXP[_i] = EXP[_i - 255]


def gmul(a, b):
    if a == 0 or b == 0:
        return 0
    return EXP[LOG[a] + LOG[b]]


def gdiv(a, b):
    if a == 0:
        return 0
    return EXP[(LOG[a] - LOG[b]) % 255]


def poly_eval(p, x):
    """p: coefficients highest degree first."""
    y = 0
    for c in p:
        y = gmul(y, x) ^ c
    return y


def syndromes(word, nec):
    return [poly_eval(word, EXP[i]) for i in range(nec)]


def rs_correct(word, nec):
    """Returns (corrected word, number of errors) or raises ValueError."""
    word = list(word)
    synd = syndromes(word, nec)
    if not any(synd):
        return word, 0
    # Berlekamp-Massey; polynomials lowest degree first
    C = [1]
    B = [1]
    L = 0
    m = 1
    b = 1
    for n in range(nec):
        d = synd[n]
        for i in range(1, L + 1):
            if i < len(C):
                d ^= gmul(C[i], synd[n - i])
        if d == 0:
            m += 1
        else:
            T = C[:]
            coef = gdiv(d, b)
            C = C + [0] * (len(B) + m - len(C))
            for i, bc in enumerate(B):
                C[i + m] ^= gmul(coef, bc)
            if 2 * L <= n:
                L = n + 1 - L
                B = T
                b = d
                m = 1
            else:
                m += 1
    while C and C[-1] == 0:
        C.pop()
    nerr = len(C) - 1
    if nerr != L or nerr * 2 > nec:
        raise ValueError('too many errors')
    n = len(word)
    # Chien search: error locator roots X^-1
    pos = []
    for i in range(n):
        # position i from the left has exponent n-1-i
        xinv = EXP[(255 - (n - 1 - i)) % 255]
        v = 0
        for j in reversed(range(len(C))):
            v = gmul(v, xinv) ^ C[j]
        if v == 0:
            pos.append(i)
    if len(pos) != nerr:
        raise ValueError('locator roots mismatch')
    # Forney: omega = S(x)*C(x) mod x^nec (lowest first)
    omega = [0] * nec
    for i in range(nec):
        for j in range(len(C)):
            if i - j >= 0:
                omega[i] ^= gmul(synd[i - j], C[j])
    # derivative of C
    for p in pos:
        e = n - 1 - p
        X = EXP[e % 255]
        xinv = EXP[(255 - e) % 255]
        num = 0
        for j in reversed(range(nec)):
            num = gmul(num, xinv) ^ omega[j]
        den = 0
        # C'(x) = sum_{j odd} C[j] x^(j-1)
        for j in range(1, len(C), 2):
            den ^= gmul(C[j], EXP[(LOG[xinv] * (j - 1)) % 255] if (j - 1) else 1)
        if den == 0:
            raise ValueError('forney den zero')
        # first consecutive root is alpha^0 -> magnitude = X^(1-0) * omega(X^-1)/C'(X^-1)
        mag = gmul(X, gdiv(num, den))
        word[p] ^= mag
    if any(syndromes(word, nec)):
        raise ValueError('correction failed')
    return word, nerr


# ---------------- ISO tables -----------------
ECB = {
    'L': [7, 10, 15, 20, 26, 18, 20, 24, 30, 18, 20, 24, 26, 30, 22, 24, 28, 30, 28, 28, 28, 28, 30, 30, 26, 28, 30, 30, 30, 30, 30, 30, 30, 30, 30, 30, 30, 30, 30, 30],
    'M': [10, 16, 26, 18, 24, 16, 18, 22, 22, 26, 30, 22, 22, 24, 24, 28, 28, 26, 26, 26, 26, 28, 28, 28, 28, 28, 28, 28, 28, 28, 28, 28, 28, 28, 28, 28, 28, 28, 28, 28],
    'Q': [13, 22, 18, 26, 18, 24, 18, 22, 20, 24, 28, 26, 24, 20, 30, 24, 28, 28, 26, 30, 28, 30, 30, 30, 30, 28, 30, 30, 30, 30, 30, 30, 30, 30, 30, 30, 30, 30, 30, 30],
    'H': [17, 28, 22, 16, 22, 28, 26, 26, 24, 28, 24, 28, 22, 24, 24, 30, 28, 28, 26, 28, 30, 24, 30, 30, 30, 30, 30, 30, 30, 30, 30, 30, 30, 30, 30, 30, 30, 30, 30, 30]}
NB = {
    'L': [1, 1, 1, 1, 1, 2, 2, 2, 2, 4, 4, 4, 4, 4, 6, 6, 6, 6, 7, 8, 8, 9, 9, 10, 12, 12, 12, 13, 14, 15, 16, 17, 18, 19, 19, 20, 21, 22, 24, 25],
    'M': [1, 1, 1, 2, 2, 4, 4, 4, 5, 5, 5, 8, 9, 9, 10, 10, 11, 13, 14, 16, 17, 17, 18, 20, 21, 23, 25, 26, 28, 29, 31, 33, 35, 37, 38, 40, 43, 45, 47, 49],
    'Q': [1, 1, 2, 2, 4, 4, 6, 6, 8, 8, 8, 10, 12, 16, 12, 17, 16, 18, 21, 20, 23, 23, 25, 27, 29, 34, 34, 35, 38, 40, 43, 45, 48, 51, 53, 56, 59, 62, 65, 68],
    'H': [1, 1, 2, 4, 4, 4, 5, 6, 8, 8, 11, 11, 16, 16, 18, 16, 19, 21, 25, 25, 25, 34, 30, 32, 35, 37, 40, 42, 45, 48, 51, 54, 57, 60, 63, 66, 70, 74, 77, 81]}
# Micro: (version, level) -> (total codewords, data codewords, data bits)
MICRO = {('M1', None): (5, 3, 20), ('M2', 'L'): (10, 5, 40), ('M2', 'M'): (10, 4, 32),
         ('M3', 'L'): (17, 11, 84), ('M3', 'M'): (17, 9, 68),
         ('M4', 'L'): (24, 16, 128), ('M4', 'M'): (24, 14, 112), ('M4', 'Q'): (24, 10, 80)}
MICRO_SYMBOL_NUMBER = [('M1', None), ('M2', 'L'), ('M2', 'M'), ('M3', 'L'), ('M3', 'M'), ('M4', 'L'), ('M4', 'M'), ('M4', 'Q')]
REMAINDER = {}
for v in range(1, 41):
    REMAINDER[v] = 7 if 2 <= v <= 6 else 3 if 14 <= v <= 20 or 28 <= v <= 34 else 4 if 21 <= v <= 27 else 0


def raw_modules(v):
    r = (16 * v + 128) * v + 64
    if v >= 2:
        n = v // 7 + 2
        r -= (25 * n - 10) * n - 55
        if v >= 7:
            r -= 36
    return r


def block_layout(version, level):
    """Returns list of (total, data) per block, in ISO order (short blocks first)."""
    if isinstance(version, str):
        t, d, _ = MICRO[(version, level)]
        return [(t, d)]
    tot = raw_modules(version) // 8
    e = ECB[level][version - 1]
    n = NB[level][version - 1]
    short, nlong = divmod(tot, n)
    return [(short, short - e)] * (n - nlong) + [(short + 1, short + 1 - e)] * nlong


def alignment_positions(v):
    if v == 1:
        return []
    n = v // 7 + 2
    step = 26 if v == 32 else (v * 4 + n * 2 + 1) // (n * 2 - 2) * 2
    out = []
    pos = v * 4 + 17 - 7
    while len(out) < n - 1:
        out.insert(0, pos)
        pos -= step
    return [6] + out


def bch_format(data5):
    d = data5 << 10
    g = 0x537
    r = d
    for i in range(14, 9, -1):
        if r & (1 << i):
            r ^= g << (i - 10)
    return d | r


def golay_version(v):
    d = v << 12
    r = d
    for i in range(17, 11, -1):
        if r & (1 << i):
            r ^= 0x1f25 << (i - 12)
    return d | r


MASKS = [lambda i, j: (i + j) % 2 == 0,
         lambda i, j: i % 2 == 0,
         lambda i, j: j % 3 == 0,
         lambda i, j: (i + j) % 3 == 0,
         lambda i, j: (i // 2 + j // 3) % 2 == 0,
         lambda i, j: (i * j) % 2 + (i * j) % 3 == 0,
         lambda i, j: ((i * j) % 2 + (i * j) % 3) % 2 == 0,
         lambda i, j: ((i + j) % 2 + (i * j) % 3) % 2 == 0]
MICRO_MASKS = [MASKS[1], MASKS[4], MASKS[6], MASKS[7]]

LEVEL_BITS = {0b01: 'L', 0b00: 'M', 0b11: 'Q', 0b10: 'H'}
ALNUM = '0123456789ABCDEFGHIJKLMNOPQRSTUVWXYZ $%*+-./:'


def function_map(size):
    """Returns matrix of bools: True = function pattern (not encoding region)."""
    micro = size < 21
    f = [[False] * size for _ in range(size)]
    def fill(r0, c0, h, w):
        for r in range(r0, r0 + h):
            for c in range(c0, c0 + w):
                if 0 <= r < size and 0 <= c < size:
                    f[r][c] = True
    if micro:
        fill(0, 0, 8, 8)           # finder + separator
        fill(0, 0, 1, size)        # timing row 0
        fill(0, 0, size, 1)        # timing col 0
        fill(8, 1, 1, 8)           # format
        fill(1, 8, 8, 1)
        return f
    v = (size - 17) // 4
    fill(0, 0, 8, 8)
    fill(0, size - 8, 8, 8)
    fill(size - 8, 0, 8, 8)
    fill(6, 0, 1, size)
    fill(0, 6, size, 1)
    fill(8, 0, 1, 9)
    fill(0, 8, 9, 1)
    fill(8, size - 8, 1, 8)
    fill(size - 8, 8, 8, 1)       # includes dark module at (size-8, 8)
    ap = alignment_positions(v)
    for r in ap:
        for c in ap:
            if (r == 6 and c == 6) or (r == 6 and c == ap[-1]) or (r == ap[-1] and c == 6):
                continue
            fill(r - 2, c - 2, 5, 5)
    if v >= 7:
        fill(0, size - 11, 6, 3)
        fill(size - 11, 0, 3, 6)
    return f


def read_format(m, size):
    micro = size < 21
    if micro:
        bits = [m[r][8] for r in range(1, 9)] + [m[8][c] for c in range(7, 0, -1)]  # bit0..bit14
        val = sum(b << i for i, b in enumerate(bits)) ^ 0x4445
        return [val]
    b1 = [m[r][8] for r in (0, 1, 2, 3, 4, 5, 7, 8)] + [m[8][c] for c in (7, 5, 4, 3, 2, 1, 0)]
    b2 = [m[8][size - 1 - i] for i in range(8)] + [m[size - 7 + i][8] for i in range(7)]
    return [sum(b << i for i, b in enumerate(bb)) ^ 0x5412 for bb in (b1, b2)]


def read_version_info(m, size):
    a = 0
    b = 0
    for i in range(6):
        for k in range(3):
            a |= m[size - 11 + k][i] << (i * 3 + k)
            b |= m[i][size - 11 + k] << (i * 3 + k)
    return a, b


def codeword_module_order(size, fmap):
    micro = size < 21
    order = []
    col = size - 1
    up = True
    while col > 0:
        if not micro and col == 6:
            col -= 1
        rows = range(size - 1, -1, -1) if up else range(size)
        for r in rows:
            for c in (col, col - 1):
                if not fmap[r][c]:
                    order.append((r, c))
        up = not up
        col -= 2
    return order


class Read:
    pass


def _hamming(a, b):
    return bin(a ^ b).count('1')


def best_format(words):
    """Nearest BCH(15,5) codeword over all copies read from the symbol.
    Returns (data5, distance) or (None, distance) if no codeword is within distance 3."""
    best = (None, 99)
    for d5 in range(32):
        cw = bch_format(d5)
        for w in words:
            dist = _hamming(cw, w)
            if dist < best[1]:
                best = (d5, dist)
    if best[1] > 3:
        return None, best[1]
    return best


def best_version(words):
    best = (None, 99)
    for v in range(7, 41):
        cw = golay_version(v)
        for w in words:
            dist = _hamming(cw, w)
            if dist < best[1]:
                best = (v, dist)
    if best[1] > 3:
        return None, best[1]
    return best


class Unreadable(ValueError):
    """The reader cannot establish (version, level, mask) for the symbol."""


def symbol_structure(size, version, level):
    """Returns (order, layout, cw_modules, cw_block) for a symbol:
    order: encoding-region modules in placement order; layout: [(total, data)] per block;
    cw_modules[k]: list of (r, c) of codeword k (placement order); cw_block[k]: (block, index in block)."""
    fmap = function_map(size)
    order = codeword_module_order(size, fmap)
    layout = block_layout(version, level)
    total_cw = sum(t for t, d in layout)
    ndata = sum(d for t, d in layout)
    half = version in ('M1', 'M3')
    cw_modules = []
    pos = 0
    for k in range(total_cw):
        n = 4 if half and k == ndata - 1 else 8
        cw_modules.append(order[pos:pos + n])
        pos += n
    cw_block = []
    maxd = max(d for t, d in layout)
    for i in range(maxd):
        for b, (t, d) in enumerate(layout):
            if i < d:
                cw_block.append((b, i))
    maxe = max(t - d for t, d in layout)
    for i in range(maxe):
        for b, (t, d) in enumerate(layout):
            if i < t - d:
                cw_block.append((b, d + i))
    assert len(cw_block) == total_cw
    return order, layout, cw_modules, cw_block


def read_symbol(matrix):
    """Reads a symbol the way a standard reader does: version from the size (and, for
    versions 7+, the version information), level and mask from the format information
    (nearest BCH codeword over both copies), unmasking, zig-zag read-out, de-interleaving
    by this module's Table 9. Raises Unreadable if version/level/mask cannot be established."""
    size = len(matrix)
    if any(len(r) != size for r in matrix):
        raise Unreadable('matrix is not square')
    micro = size < 21
    if micro:
        if size not in (11, 13, 15, 17):
            raise Unreadable('no Micro QR version has size %d' % size)
    elif (size - 17) % 4 or not 21 <= size <= 177:
        raise Unreadable('no QR version has size %d' % size)
    m = [[1 if x else 0 for x in r] for r in matrix]
    fmap = function_map(size)
    out = Read()
    out.size = size
    fmts = read_format(m, size)
    out.format_words = fmts
    out.format_valid = [bch_format(x >> 10) == x for x in fmts]
    data5, dist = best_format(fmts)
    if data5 is None:
        raise Unreadable('format information is %d bits away from any BCH codeword' % dist)
    out.format_distance = dist
    if micro:
        version, level = MICRO_SYMBOL_NUMBER[data5 >> 2]
        mask = data5 & 3
        maskfn = MICRO_MASKS[mask]
        out.version_from_size = 'M%d' % ((size - 9) // 2)
        if version != out.version_from_size:
            raise Unreadable('format information says %s but the symbol has the size of %s' % (version, out.version_from_size))
    else:
        level = LEVEL_BITS[data5 >> 3]
        mask = data5 & 7
        maskfn = MASKS[mask]
        version = (size - 17) // 4
        out.version_from_size = version
        if version >= 7:
            out.version_info = read_version_info(m, size)
            v, vdist = best_version(out.version_info)
            if v != version:
                raise Unreadable('version information reads %r (distance %d), size says %d' % (v, vdist, version))
    out.version, out.level, out.mask = version, level, mask
    order = codeword_module_order(size, fmap)
    bits = [m[r][c] ^ (1 if maskfn(r, c) else 0) for r, c in order]
    out.nbits = len(bits)
    layout = block_layout(version, level)
    total_cw = sum(t for t, d in layout)
    half = version in ('M1', 'M3')
    # split bit stream into codewords
    ndata = sum(d for t, d in layout)
    if len(bits) < total_cw * 8 - (4 if half else 0):
        raise Unreadable('encoding region too small')
    cws = []
    pos = 0
    for k in range(total_cw):
        if half and k == ndata - 1:
            cws.append(int(''.join(map(str, bits[pos:pos + 4])), 2) << 4)
            pos += 4
        else:
            cws.append(int(''.join(map(str, bits[pos:pos + 8])), 2))
            pos += 8
    out.remainder_bits = bits[pos:]
    out.codewords = cws
    # de-interleave
    dblocks = [[] for _ in layout]
    eblocks = [[] for _ in layout]
    it = iter(cws)
    maxd = max(d for t, d in layout)
    for i in range(maxd):
        for b, (t, d) in enumerate(layout):
            if i < d:
                dblocks[b].append(next(it))
    maxe = max(t - d for t, d in layout)
    for i in range(maxe):
        for b, (t, d) in enumerate(layout):
            if i < t - d:
                eblocks[b].append(next(it))
    out.layout = layout
    out.blocks = [d + e for d, e in zip(dblocks, eblocks)]
    out.order = order
    return out


def correct(read):
    """RS-corrects each block; returns list of data codewords; raises ValueError on failure."""
    data = []
    fixed = []
    nerrs = []
    for blk, (t, d) in zip(read.blocks, read.layout):
        w, n = rs_correct(blk, t - d)
        fixed.append(w)
        nerrs.append(n)
        data.extend(w[:d])
    return data, fixed, nerrs


CCI = {  # mode -> lengths for ranges (1-9, 10-26, 27-40)
    'numeric': (10, 12, 14), 'alphanumeric': (9, 11, 13), 'byte': (8, 16, 16), 'kanji': (8, 10, 12), 'hanzi': (8, 10, 12)}
MICRO_CCI = {'numeric': (3, 4, 5, 6), 'alphanumeric': (None, 3, 4, 5), 'byte': (None, None, 4, 5), 'kanji': (None, None, 3, 4)}
QR_MODES = {1: 'numeric', 2: 'alphanumeric', 4: 'byte', 8: 'kanji', 13: 'hanzi'}
MICRO_MODES = {0: 'numeric', 1: 'alphanumeric', 2: 'byte', 3: 'kanji'}
MICRO_TERM = {'M1': 3, 'M2': 5, 'M3': 7, 'M4': 9}


class BitReader:
    def __init__(self, bits):
        self.bits = bits
        self.pos = 0
    def left(self):
        return len(self.bits) - self.pos
    def take(self, n):
        if self.left() < n:
            raise ValueError('bit stream exhausted')
        v = 0
        for b in self.bits[self.pos:self.pos + n]:
            v = (v << 1) | b
        self.pos += n
        return v


def parse_data(version, data_codewords):
    """Parses the data codewords. Returns dict(segments=[(mode, bytes, eci)], sa=(pos,total,parity)|None,
    end=bit position where the segments end, bits=list of all data bits)."""
    micro = isinstance(version, str)
    bits = []
    half = version in ('M1', 'M3')
    for k, cw in enumerate(data_codewords):
        n = 4 if half and k == len(data_codewords) - 1 else 8
        v = cw >> 4 if n == 4 else cw
        bits.extend((v >> i) & 1 for i in reversed(range(n)))
    br = BitReader(bits)
    segs = []
    sa = None
    sa_at = None
    eci = None
    if micro:
        mi = int(version[1]) - 1
        while True:
            term = MICRO_TERM[version]
            if br.left() < mi + 1 if mi else br.left() < 3:
                break
            # terminator check: all zero of length term (or to the end)
            look = bits[br.pos:br.pos + term]
            if not any(look):
                break
            if mi:
                mv = br.take(mi)
                if mv not in MICRO_MODES:
                    raise ValueError('unknown Micro QR mode indicator %d' % mv)
                mode = MICRO_MODES[mv]
            else:
                mode = 'numeric'
            cl = MICRO_CCI[mode][mi]
            if cl is None:
                raise ValueError('mode %s not available in %s' % (mode, version))
            cnt = br.take(cl)
            segs.append((mode, read_segment(br, mode, cnt), None))
        return dict(segments=segs, sa=None, sa_at=None, end=br.pos, bits=bits)
    rng = 0 if version < 10 else 1 if version < 27 else 2
    while True:
        if br.left() < 4:
            break
        mi = br.take(4)
        if mi == 0:
            br.pos -= 4
            break
        if mi == 7:
            b = br.take(8)
            if b & 0x80 == 0:
                eci = b
            elif b & 0xc0 == 0x80:
                eci = ((b & 0x3f) << 8) | br.take(8)
            else:
                eci = ((b & 0x1f) << 16) | br.take(16)
            continue
        if mi == 3:
            sa_at = br.pos - 4
            sa = (br.take(4), br.take(4), br.take(8))
            continue
        if mi not in QR_MODES:
            raise ValueError('unknown mode indicator %d' % mi)
        mode = QR_MODES[mi]
        if mode == 'hanzi':
            subset = br.take(4)
            if subset != 1:
                raise ValueError('hanzi subset %d' % subset)
        cnt = br.take(CCI[mode][rng])
        segs.append((mode, read_segment(br, mode, cnt), eci))
    return dict(segments=segs, sa=sa, sa_at=sa_at, end=br.pos, bits=bits)


def read_segment(br, mode, cnt):
    if mode == 'numeric':
        s = ''
        while cnt >= 3:
            v = br.take(10)
            if v > 999:
                raise ValueError('numeric group > 999')
            s += '%03d' % v
            cnt -= 3
        if cnt == 2:
            v = br.take(7)
            if v > 99:
                raise ValueError('numeric group > 99')
            s += '%02d' % v
        elif cnt == 1:
            v = br.take(4)
            if v > 9:
                raise ValueError('numeric group > 9')
            s += '%d' % v
        return s.encode('ascii')
    if mode == 'alphanumeric':
        s = ''
        while cnt >= 2:
            v = br.take(11)
            if v >= 45 * 45:
                raise ValueError('alnum pair out of range')
            s += ALNUM[v // 45] + ALNUM[v % 45]
            cnt -= 2
        if cnt:
            v = br.take(6)
            if v >= 45:
                raise ValueError('alnum char out of range')
            s += ALNUM[v]
        return s.encode('ascii')
    if mode == 'byte':
        return bytes(br.take(8) for _ in range(cnt))
    if mode == 'kanji':
        out = bytearray()
        for _ in range(cnt):
            v = br.take(13)
            a = ((v // 0xc0) << 8) | (v % 0xc0)
            a += 0x8140 if a < 0x1f00 else 0xc140
            out += bytes((a >> 8, a & 0xff))
        return bytes(out)
    if mode == 'hanzi':
        out = bytearray()
        for _ in range(cnt):
            v = br.take(13)
            a = ((v // 0x60) << 8) | (v % 0x60)
            a += 0xa1a1 if a < 0x0a00 else 0xa6a1
            out += bytes((a >> 8, a & 0xff))
        return bytes(out)
    raise ValueError(mode)


def decode(matrix):
    r = read_symbol(matrix)
    data, fixed, nerrs = correct(r)
    p = parse_data(r.version, data)
    return r, data, p
