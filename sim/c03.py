"""C03 -- Reed-Solomon block layout; correctable after channel damage.

Sender: real segno.make. Medium: sim.channel. Receiver: sim.refqr (independent ISO reader).
Two configurations per run, reported separately:
  fault-free      -- every block read by the ISO read-out has all-zero syndromes [c03.syndrome],
                     reader can establish version/level/mask [c03.unreadable]
  fault-injecting -- K seeded damage plans, each within floor(ec/2) changed codewords in every
                     block; the reference RS decoder must restore every emitted block and the
                     parsed payload [c03.correct]
plus an over-budget probe (not an oracle on segno) showing the budget is tight.
"""
from . import core, gen, refqr, channel

PROP = 'C03'
N_LAYOUTS = len(gen.LAYOUTS)  # 168
# enumeration plan: every layout once, the 8 Micro layouts 60 more times each (tiny symbols, the half codeword of M1/M3
# and the 2-bit..4-bit mode/count headers make their boundary cases data dependent), versions 1-10 once more
ENUM_PLAN = list(gen.LAYOUTS) + [l for l in gen.LAYOUTS if isinstance(l[0], str)] * 60 + [l for l in gen.LAYOUTS if not isinstance(l[0], str) and l[0] <= 10]
N_ENUM = len(ENUM_PLAN)
QUICK_RUNS = N_ENUM + 440
ASSUMPTIONS = [
    'sim.refqr (reference reader, own copy of ISO Table 9, BCH/Golay encoders, Berlekamp-Massey decoder) is correct',
    'the comparison is against what the symbol itself carried, not against the content passed to make (C01 is not claimed)',
    'damage is applied to encoding-region modules only; function patterns and format/version information are C02 (not claimed)',
    'sender arguments are sampled; the 168 version/level layouts are enumerated',
]


def _sender_for_layout(rng, version, level):
    micro = isinstance(version, str)
    modes = gen.MICRO_MODES[version] if micro else gen.QR_MODES
    mode = rng.choice(modes)
    cap = gen.capacity_chars(version, level, mode)
    if cap < 1:
        mode = 'numeric'
        cap = gen.capacity_chars(version, level, mode)
    n = gen.length_near(rng, cap)
    if rng.random() < (0.3 if micro else 0.12):
        n = cap + rng.choice((1, 1, 2))    # just beyond the ISO capacity: must be refused -- if it is accepted, the symbol must still be valid
    content = gen.text(rng, mode, n)
    kw = {'version': version, 'error': level, 'boost_error': False, 'mode': mode}
    big = (not micro) and version > 12
    if big or rng.random() < 0.5:
        kw['mask'] = rng.randrange(4 if micro else 8)
    if micro and rng.random() < 0.5:
        kw['micro'] = True
    return content, kw


def _sender_sampled(rng, tier):
    kw = {}
    maxv = 40 if tier == 'thorough' else 20
    r = rng.random()
    if r < 0.25:
        # several parts, possibly with different modes
        parts = []
        for _ in range(rng.randint(2, 4)):
            mode = rng.choice(('numeric', 'alphanumeric', 'byte', 'kanji'))
            parts.append(gen.text(rng, mode, rng.randint(1, 30), 'latin1' if mode == 'byte' else None))
        content = parts
    else:
        mode = rng.choice(gen.QR_MODES)
        n = int(rng.paretovariate(0.7)) if rng.random() < 0.7 else rng.randint(1, 400)
        n = max(1, min(n, 1200))
        r = rng.random()
        content = gen.text(rng, mode, n) if r < 0.85 else gen.near_text(rng, n) if r < 0.93 else gen.kanji_lookalike(rng, max(1, n // 2))
        if mode == 'hanzi':
            kw['mode'] = 'hanzi'
        elif rng.random() < 0.15:
            kw['mode'] = mode
    if rng.random() < 0.4:
        kw['error'] = rng.choice('LMQH' + 'lmqh')
    if rng.random() < 0.3:
        kw['boost_error'] = False
    if rng.random() < 0.3:
        kw['version'] = rng.choice([rng.randint(1, maxv), rng.choice(('M1', 'M2', 'M3', 'M4', 'm3'))])
    if rng.random() < 0.4:
        kw['micro'] = rng.choice((True, False))
    if rng.random() < 0.15:
        kw['eci'] = True
    if rng.random() < 0.2:
        kw['mask'] = rng.randrange(4)
    if rng.random() < 0.1 and isinstance(content, str):
        kw['encoding'] = rng.choice(('utf-8', 'utf-16', 'latin1', 'shift_jis', 'cp1252'))
    return content, kw


def gen_scenario(batch_seed, i, tier):
    seed = core.derive_seed(batch_seed, PROP, i)
    rng = core.R(seed)
    if i < N_ENUM or (tier == 'thorough' and rng.random() < 0.6):
        version, level = ENUM_PLAN[i] if i < N_ENUM else rng.choice(gen.LAYOUTS)
        content, kw = _sender_for_layout(rng, version, level)
        target = [version, level]
    else:
        content, kw = _sender_sampled(rng, tier)
        target = None
    nplans = 6 if tier == 'quick' else 48
    kinds = [k for k in channel.DAMAGE_KINDS if rng.random() < 0.7] or ['cw_random']
    return {'prop': PROP, 'seed': seed, 'index': i, 'target': target,
            'sender': {'content': core.enc(content), 'kw': core.enc(kw)},
            'plan_seed': rng.getrandbits(48), 'nplans': nplans, 'kinds': kinds, 'plans': None,
            'probe_over_budget': rng.random() < 0.5}


def _viol(clause, msg, **detail):
    return {'clause': clause, 'msg': msg, 'detail': detail}


def execute(sc):
    """Runs one scenario. Returns result dict (JSON-able)."""
    segno = core.import_segno()
    content = core.dec(sc['sender']['content'])
    kw = core.dec(sc['sender']['kw'])
    counters = {'runs': 1}
    res = {'violations': [], 'counters': counters, 'nontrivial': False, 'scenario': sc}
    try:
        qr = segno.make(content, **kw)
    except (ValueError, LookupError) as ex:
        counters['sender_refused'] = 1
        res['digest'] = core.digest(['refused', type(ex).__name__])
        return res
    matrix = [bytes(r) for r in qr.matrix]
    bits = channel.to_bits(matrix)
    log = []
    # ---------------- fault-free configuration
    counters['fault_free_symbols'] = 1
    try:
        rd = refqr.read_symbol(bits)
    except refqr.Unreadable as ex:
        res['violations'].append(_viol('c03.unreadable', 'reference reader cannot establish version/level/mask: %s' % ex,
                                       designator=qr.designator))
        res['digest'] = core.digest(['unreadable', matrix])
        return res
    layout_name = '%s-%s' % (rd.version, rd.level)
    counters['layouts'] = {layout_name: 1}
    res['layout'] = layout_name
    bad = []
    for b, (blk, (t, d)) in enumerate(zip(rd.blocks, rd.layout)):
        counters['fault_free_blocks'] = counters.get('fault_free_blocks', 0) + 1
        if any(refqr.syndromes(blk, t - d)):
            bad.append(b)
    log.append(['read', layout_name, rd.mask, len(rd.blocks)])
    if bad:
        res['violations'].append(_viol(
            'c03.syndrome', 'symbol %s: block(s) %s of %d read by the ISO layout are not Reed-Solomon codewords'
            % (layout_name, bad[:8], len(rd.blocks)), layout=layout_name, blocks=bad, designator=qr.designator))
        res['digest'] = core.digest(log)
        return res
    try:
        emitted = refqr.parse_data(rd.version, [c for blk, (t, d) in zip(rd.blocks, rd.layout) for c in blk[:d]])
        emitted_payload = [(m, p.hex(), e) for m, p, e in emitted['segments']]
    except ValueError:
        emitted_payload = None  # bit-stream problems are C01/C13's business
        counters['emitted_stream_unparsable'] = 1
    # ---------------- fault-injecting configuration
    st = channel.Structure(rd.size, rd.version, rd.level)
    plans = sc.get('plans')
    if plans is None:
        prng = core.R(sc['plan_seed'])
        plans = []
        for _ in range(sc['nplans']):
            kind = prng.choice(sc['kinds'])
            plans.append(channel.make_damage(prng, st, bits, kind))
        if sc.get('probe_over_budget'):
            b = prng.randrange(len(st.layout))
            p = channel.make_damage(prng, st, bits, 'max_all', over_budget_block=b)
            p['probe'] = b
            plans.append(p)
    explicit = dict(sc)
    explicit['plans'] = plans
    res['scenario'] = explicit
    fired = counters.setdefault('damage_fired', {})
    hist = counters.setdefault('errors_vs_budget', {})
    for pi, plan in enumerate(plans):
        mods = plan['mods']
        try:
            per = channel.errors_per_block(st, bits, mods)
        except ValueError:
            counters['plan_not_applicable'] = counters.get('plan_not_applicable', 0) + 1
            continue
        probe = plan.get('probe')
        if probe is None and any(n > st.budget[b] for b, n in enumerate(per)):
            counters['plan_not_applicable'] = counters.get('plan_not_applicable', 0) + 1
            continue
        damaged = channel.apply_damage(bits, mods)
        try:
            rd2 = refqr.read_symbol(damaged)
        except refqr.Unreadable as ex:  # cannot happen: format/version areas are never damaged
            raise core.HarnessError('damaged symbol unreadable: %s' % ex)
        nerr_total = sum(per)
        log.append(['plan', pi, plan['kind'], per])
        if probe is not None:
            # over-budget probe: the decoder must fail or miscorrect in that block -- counted, never an alarm
            t, d = rd.layout[probe]
            try:
                w, _ = refqr.rs_correct(rd2.blocks[probe], t - d)
                outcome = 'miscorrected' if w != rd.blocks[probe] else 'restored'
            except ValueError:
                outcome = 'rejected'
            pc = counters.setdefault('over_budget_probe', {})
            pc[outcome] = pc.get(outcome, 0) + 1
            continue
        if nerr_total:
            fired[plan['kind']] = fired.get(plan['kind'], 0) + 1
            res['nontrivial'] = True
            counters['codewords_damaged'] = counters.get('codewords_damaged', 0) + nerr_total
        for b, n in enumerate(per):
            key = 'at_budget' if n == st.budget[b] else 'below_budget' if n else 'untouched'
            hist[key] = hist.get(key, 0) + 1
        for b, (blk, (t, d)) in enumerate(zip(rd2.blocks, rd2.layout)):
            try:
                w, n = refqr.rs_correct(blk, t - d)
            except ValueError as ex:
                w, n = None, str(ex)
            if w != rd.blocks[b]:
                res['violations'].append(_viol(
                    'c03.correct', 'symbol %s, damage plan %d (%s): block %d with %d of %d allowed codeword errors '
                    'was not restored (%s)' % (layout_name, pi, plan['kind'], b, per[b], st.budget[b],
                                               'decoder: %s' % n if w is None else 'miscorrected'),
                    layout=layout_name, plan=pi, block=b))
                break
        else:
            counters['plans_corrected'] = counters.get('plans_corrected', 0) + 1
            if emitted_payload is not None and nerr_total:
                data = []
                for blk, (t, d) in zip(rd2.blocks, rd2.layout):
                    data.extend(refqr.rs_correct(blk, t - d)[0][:d])
                got = refqr.parse_data(rd.version, data)
                if [(m, p.hex(), e) for m, p, e in got['segments']] != emitted_payload:
                    res['violations'].append(_viol('c03.correct', 'payload differs after correction', layout=layout_name, plan=pi))
        if res['violations']:
            break
    res['digest'] = core.digest(log)
    res['sample'] = {'content': sc['sender']['content'] if len(str(sc['sender']['content'])) < 200 else '<%d chars>' % len(content),
                     'kw': sc['sender']['kw'], 'layout': layout_name, 'mask': rd.mask,
                     'plans': [[p['kind'], len(p['mods'])] for p in plans][:6]}
    return res


def minimise(sc, viol, fails):
    """fails(scenario) -> bool (same clause still fails, evaluated in a pristine child)."""
    cur = dict(sc)
    pi = viol['detail'].get('plan')
    if cur.get('plans') and pi is not None:
        cand = dict(cur, plans=[cur['plans'][pi]])
        if fails(cand):
            cur = cand
            mods = core.ddmin_list(cur['plans'][0]['mods'],
                                   lambda m: fails(dict(cur, plans=[dict(cur['plans'][0], mods=m)])), max_tests=120)
            cur = dict(cur, plans=[dict(cur['plans'][0], mods=mods)])
    elif cur.get('plans') is not None:
        cand = dict(cur, plans=[])
        if fails(cand):
            cur = cand
    # shrink the content
    content = core.dec(cur['sender']['content'])
    if isinstance(content, (str, bytes)) and not (cur.get('plans')):
        while len(content) > 1:
            half = content[:len(content) // 2]
            cand = dict(cur, sender=dict(cur['sender'], content=core.enc(half)))
            if fails(cand):
                cur, content = cand, half
            else:
                break
    return cur


def known(sc, viol):
    return None


def coverage_rule():
    return ('one run = one symbol made by segno.make (168 version/level layouts enumerated, the rest sampled: modes, '
            'multi-part content, eci, micro, boost, automatic and explicit masks) x seeded damage plans within '
            'floor(ec/2) codewords per block; distinct = distinct event-log digest; non-trivial = at least one '
            'damage plan actually changed a codeword')


def tier_params(tier):
    if tier == 'quick':
        return {'runs': QUICK_RUNS, 'run_timeout': 300.0, 'wall_cap': 1500}
    return {'budget_s': 600, 'min_runs': N_ENUM, 'run_timeout': 600.0, 'wall_cap': 3000}


def finish_coverage(cov, counters):
    cov['layouts_visited'] = len(counters.get('layouts', {}))
    cov['layouts_total'] = N_LAYOUTS
    cov['faults_fired'] = counters.get('damage_fired', {})
    cov['sim_time'] = 'not meaningful for this property: the channel has no clock'
