"""C15 -- encoding is pure: deterministic, history-free, thread-safe, idempotent.

Simulated clients (real threads under the baton scheduler, pre-empted at seeded line or
bytecode-instruction boundaries) issue make / save / matrix_iter / CLI / ... operations
against one shared library, one simulated file system and one simulated clock, with
injected aborts, allocation failures, clock jumps and sink faults.

Sequential reference model: the API is stateless, so every operation must return its
*golden* -- the result of the same operation executed alone in a pristine process.
"""
import json
import os
import re
import subprocess
import sys
import threading

from . import core, ops, opts, sched, world

PROP = 'C15'
ASSUMPTIONS = [
    'pre-emption happens at Python line or bytecode-instruction boundaries of code in /repo/segno (GIL model of CPython 3.12); '
    'free-threaded builds and races inside C code (zlib, bytearray) are out of reach',
    'allocation failure is modelled by raising MemoryError at a Python line, cancellation by raising a BaseException there',
    'goldens are computed in pristine forked children (frozen clock, fault-free sinks); EPS/PDF/LaTeX timestamps are blanked and '
    '.svgz output is gunzipped before comparison',
    'lookup tables = module-level data objects of segno.* that are non-empty containers, compiled patterns or named constants right after import; '
    'objects that are empty/None at import (caches) and new attributes are not flagged by c15.tables (c15.result catches them if they matter)',
    'QRCode.show() and write_terminal_win are not simulated (no property covers them)',
]
STEP_BUDGET = {'quick': 40_000_000, 'thorough': 400_000_000}
FAULT_FUNCS = ('find_and_apply_best_mask', 'apply_mask', 'make_blocks', 'make_final_message', 'add_codewords', 'make_matrix', 'add_format_info',
               'write_png', 'write_ppm', 'write_svg', 'write_pdf', 'write_pam', 'write_eps', '_make_colormap', 'writable', 'wrapper', 'save',
               'matrix_iter', 'matrix_iter_verbose', 'matrix_to_lines', 'make_segment', 'encode_sequence', '_encode', 'encode', 'mask_scores')
PROBE_FUNCS = ('find_and_apply_best_mask', 'apply_mask', 'make_blocks', 'make_final_message', 'add_codewords', 'make_matrix',
               'write_png', 'write_ppm', 'write_svg', 'write_pdf', 'write_pbm', 'write_pam', '_make_colormap', 'writable',
               'matrix_iter', 'matrix_iter_verbose', 'matrix_to_lines', 'add_segment', 'make_segment', 'encode_sequence', 'save', 'wrapper')
_MODULES = ('segno', 'segno.encoder', 'segno.consts', 'segno.writers', 'segno.utils', 'segno.cli', 'segno.helpers')
_DATA_TYPES = (dict, list, tuple, set, frozenset, bytes, bytearray, str, int, float, bool, type(None))


# ----------------------------------------------------------------------------------------
def _canon(o, depth=0):
    if depth > 8:
        return '<deep>'
    if isinstance(o, dict):
        return '{' + ','.join(sorted('%s:%s' % (_canon(k, depth + 1), _canon(v, depth + 1)) for k, v in o.items())) + '}'
    if isinstance(o, (list, tuple)):
        return type(o).__name__ + '[' + ','.join(_canon(x, depth + 1) for x in o) + ']'
    if isinstance(o, (set, frozenset)):
        return 'set[' + ','.join(sorted(_canon(x, depth + 1) for x in o)) + ']'
    if isinstance(o, (bytes, bytearray)):
        return type(o).__name__ + ':' + bytes(o).hex()
    if isinstance(o, re.Pattern):
        return 're:%r:%d' % (o.pattern, o.flags)
    if callable(o):
        return 'fn:' + getattr(o, '__qualname__', type(o).__name__)
    return repr(o)


def snapshot_tables():
    snap = {}
    for mn in _MODULES:
        m = sys.modules.get(mn)
        if m is None:
            continue
        for name, val in vars(m).items():
            if name.startswith('__'):
                continue
            if not (isinstance(val, _DATA_TYPES) or isinstance(val, re.Pattern)):
                continue
            # a lookup table is data the library ships with: a non-empty container, a compiled pattern, or a
            # named constant. Objects that are empty / None at import (a memo cache waiting to be filled, a lazily
            # built structure) are not lookup tables -- if they make results history-dependent, c15.result says so.
            if isinstance(val, (dict, list, set, frozenset, tuple, bytes, bytearray, str)) and len(val) == 0:
                continue
            if val is None or (isinstance(val, (int, float, bool)) and not (name.isupper() or mn == 'segno.consts')):
                continue
            snap['%s.%s' % (mn, name)] = hash(_canon(val))
    return snap


def diff_tables(before):
    now = snapshot_tables()
    changed = sorted(k for k in before if now.get(k) != before[k])
    new = sorted(k for k in now if k not in before)
    return changed, new


# ----------------------------------------------------------------------------------------
def golden_of(spec):
    """Result of `spec` executed alone in this (pristine) process."""
    segno = core.import_segno()
    w = world.World(clock=world.SimClock(), bufsize=8192).install()
    ctx = ops.Ctx(w, stdout=world.SimTextStream(label='stdout'), stderr=world.SimTextStream(label='stderr'), swap_std=False)
    old = sys.stdout, sys.stderr
    sys.stdout, sys.stderr = ctx.stdout, ctx.stderr
    try:
        res, _ = ops.execute_op(segno, spec, ctx)
    finally:
        sys.stdout, sys.stderr = old
    return res


def gen_scenario(batch_seed, i, tier):
    seed = core.derive_seed(batch_seed, PROP, i)
    rng = core.R(seed)
    sequential = rng.random() < 0.3
    if sequential:
        nthreads, trace = 1, False
        nops = rng.randint(3, 12)
    else:
        nthreads, trace = rng.choice((2, 2, 3, 3, 4, 1)), True
        nops = None
    small = rng.random() < (0.9 if tier == 'quick' else 0.75)
    threads = [[] for _ in range(nthreads)]
    makes = []
    counter = 0
    # focus: many operations of ONE serialiser kind on few symbols with varied options (sequential histories and
    # some threaded runs) -- state leaking inside one writer needs two related calls of that writer to show
    focus = rng.choice(opts.KINDS) if (sequential and rng.random() < 0.6) or (not sequential and rng.random() < 0.15) else None
    if focus and sequential:
        nops = rng.randint(8, 20)
    for t in range(nthreads):
        for k in range(nops if nops else rng.randint(1, 4)):
            name = 't%do%d' % (t, k)
            r = rng.random()
            if focus and len(makes) >= (2 if rng.random() < 0.8 else 3):
                r = 0.5
            if not makes or r < 0.35:
                spec = ops.gen_make(rng, 's%d' % counter, small=small)
                if makes and rng.random() < 0.3:
                    spec = ops.vary_make(rng, rng.choice(makes), spec)
                counter += 1
                makes.append(spec)
            elif r < 0.9:
                spec = ops.gen_use(rng, rng.choice(makes), name)
                earlier = [o for th in threads for o in th if o['op'] in ('save', 'uri', 'miter', 'terminal')]
                if focus:
                    m0 = rng.choice(makes)
                    if m0['fn'] == 'make_sequence' and focus == 'pdf':
                        m0 = makes[0]
                    spec = {'op': 'save', 'sym': m0['id'], 'symspec': {'fn': m0['fn'], 'content': m0['content'], 'kw': m0['kw']}, 'name': name,
                            'kind': focus, 'skw': core.enc(opts.gen_ser_opts(rng, focus, cli=False)),
                            'route': 'path' if (m0['fn'] == 'make_sequence' and focus == 'pdf') else rng.choice(('stream', 'path'))}
                    earlier = [o for o in earlier if o['op'] == 'save']
                if earlier and rng.random() < (0.6 if focus else 0.35):
                    spec = ops.vary_use(rng, rng.choice(earlier), spec, makes)
            else:
                spec = ops.gen_cli(rng, name)
            threads[t].append(spec)
    if sequential and not focus and rng.random() < 0.18:
        # iteration history: many matrix_iter consumptions (complete, half, materialised, interleaved, suspended) and a few
        # saves on two symbols with geometries drawn from a small pool, so that equal row lengths recur
        threads = [[]]
        makes = []
        for k in range(2):
            m = ops.gen_make(rng, 's%d' % k, small=True, allow_bad=False)
            while m['fn'] == 'make_sequence' or m['fn'].startswith('helpers.'):
                m = ops.gen_make(rng, 's%d' % k, small=True, allow_bad=False)
            makes.append(m)
            threads[0].append(m)
        pool = [(rng.choice((1, 2, 3)), rng.choice((None, 0, 3))) for _ in range(2)]
        for k in range(rng.randint(8, 18)):
            m = rng.choice(makes)
            scale, border = rng.choice(pool)
            base = {'sym': m['id'], 'symspec': {'fn': m['fn'], 'content': m['content'], 'kw': m['kw']}, 'name': 't0i%d' % k}
            if rng.random() < 0.75:
                threads[0].append(dict(base, op='miter', scale=scale, border=border, verbose=rng.random() < 0.3,
                                       consume=rng.choice(('half', 'half', 'all', 'list', 'interleaved', 'abandoned')), rows=rng.randint(1, 12)))
            else:
                kind = rng.choice(('txt', 'pbm', 'pam', 'ppm', 'xbm', 'xpm', 'ans', 'png', 'svg'))
                skw = {} if kind in ('txt', 'ans') else {'scale': scale}
                if border is not None:
                    skw['border'] = border
                threads[0].append(dict(base, op='save', kind=kind, skw=core.enc(skw), route=rng.choice(('stream', 'path'))))
    elif sequential and not focus and rng.random() < 0.5:
        # idempotence sweep: many automatically configured symbols (automatic version, level boosting, mask choice),
        # each re-encoded with what it reports
        threads = [[]]
        makes = []
        for k in range(rng.randint(10, 28)):
            m = ops.gen_make(rng, 's%d' % k, small=True, allow_bad=False)
            while m['fn'] in ('make_sequence',) or m['fn'].startswith('helpers.') or isinstance(core.dec(m['content']), list):
                m = ops.gen_make(rng, 's%d' % k, small=True, allow_bad=False)
            kw = core.dec(m['kw'])
            if rng.random() < 0.85:
                kw.pop('mask', None)
            if rng.random() < 0.5:
                kw.pop('version', None)
            m['kw'] = core.enc(kw)
            makes.append(m)
            threads[0].append(m)
            threads[0].append({'op': 'reencode', 'sym': m['id'], 'symspec': {'fn': m['fn'], 'content': m['content'], 'kw': m['kw']}, 'name': 't0r%d' % k})
    # an abandoned (half-consumed) iteration is followed by a complete one with the same geometry: state left behind by
    # the abandoned generator (buffers, positions) shows in the next iteration of the same row length
    for th in threads:
        k = 0
        while k < len(th):
            o = th[k]
            if o['op'] == 'miter' and o.get('consume') == 'half' and rng.random() < 0.7:
                th.insert(k + 1, dict(o, consume=rng.choice(('all', 'all', 'list')), name=o['name'] + 'f'))
                k += 1
            k += 1
    gran = 'instr' if (trace and rng.random() < 0.1) else 'line'
    kind = rng.weighted([('geometric', 45), ('bimodal', 20), ('fixed', 10), ('starve', 12), ('sequential', 13)])
    mean = rng.choice((3, 10, 40, 150, 600, 2500, 10000, 40000))
    twin = trace and nthreads >= 2 and rng.random() < 0.3
    if twin:
        # twins: every client runs the same kind of operation on the same symbol spec with different options, under
        # near-lockstep scheduling -- two clients inside the same function at the same time is where shared scratch
        # state (a module-level buffer, a dict in a closure, "current options" globals) shows
        threads, makes = _twin_threads(rng, nthreads, small)
        kind = rng.choice(('roundrobin', 'roundrobin', 'fixed', 'geometric', 'rendezvous', 'rendezvous'))
        mean = rng.choice((1, 1, 2, 3, 5, 8)) if kind != 'rendezvous' else rng.choice((200, 1500, 8000))
        gran = 'line'
        if rng.random() < 0.3:
            # windows inside one source line need a switch between two bytecodes. A context switch of real threads costs
            # ~20 us, so instruction-granular lockstep is kept to two clients, one operation each, slices of 3-13 instructions
            gran = 'instr'
            if rng.random() < 0.7:
                # hold the twins at every line that touches shared mutable state, then cross it in tight alternation
                kind = 'rendezvous'
                mean = rng.choice((500, 3000, 20000))
                threads = [th[:2] for th in threads[:rng.choice((2, 2, 3))]]
                nthreads = len(threads)
            else:
                mean = rng.choice((3, 4, 5, 7, 9, 13))
                kind = rng.choice(('bimodal', 'roundrobin'))
                threads = [th[:1] for th in threads[:2]]
                nthreads = 2
    if gran == 'instr' and not twin and kind != 'bimodal':
        mean *= 5
    if kind == 'bimodal':
        mean = min(mean, 12)

    policy = {'kind': kind, 'mean': mean, 'seed': rng.getrandbits(48), 'victim': rng.randrange(nthreads)}
    if kind == 'rendezvous':
        if gran == 'instr':
            policy.update(rv_prob=rng.choice((0.5, 1.0, 1.0)), tight=rng.choice((40, 70)), patience=rng.choice((5000, 30000)))
        else:   # line-granular rendezvous: cheap, so every point is a rendezvous; a dozen lines of tight alternation
            policy.update(rv_prob=rng.choice((0.5, 1.0)), tight=rng.choice((6, 12, 25)), patience=rng.choice((2000, 10000)))
    faults = []
    if trace and rng.random() < 0.45:
        for _ in range(rng.randint(1, 3)):
            t = rng.randrange(nthreads)
            faults.append({'kind': rng.weighted([('abort', 5), ('memerr', 3), ('clock', 2)]), 'thread': t,
                           'op': rng.randrange(len(threads[t])),
                           'step': (int(10 ** rng.uniform(0, 4.9)) if rng.random() < 0.5 else rng.randint(1, 70000)) * (5 if gran == 'instr' else 1),
                           'delta': rng.choice((1, 3600, -86400, 10 ** 7))})
            if rng.random() < 0.4:   # place the fault inside a function that holds in-flight state
                faults[-1]['in_fn'] = rng.choice(FAULT_FUNCS)
                faults[-1]['nth'] = int(10 ** rng.uniform(0, 2.7))
    sink_faults = []
    if rng.random() < 0.15:
        for _ in range(rng.randint(1, 2)):
            t = rng.randrange(nthreads)
            k = rng.randrange(len(threads[t]))
            sink_faults.append({'op': rng.choice(('open', 'write', 'close')), 'target': 't%do%d' % (t, k), 'nth': rng.choice((0, 0, 1, 3)),
                                'errno': rng.choice(('ENOSPC', 'EIO', 'EACCES'))})
    clock = {'t0': float(rng.randint(10 ** 6, 2 * 10 ** 9)), 'tz': rng.choice((0, -19800, 28800)),
             'mode': rng.choice(('frozen', 'jumping')), 'deltas': [rng.choice((1, 60, 86400, -3600)) for _ in range(3)]}
    flavour = 'twin' if twin else ('iter_history' if (sequential and not focus and len(threads[0]) > 2 and str(threads[0][2].get('name', '')).startswith('t0i')) else 'idem_sweep' if (sequential and not focus and threads[0] and threads[0][-1]['op'] == 'reencode' and len(threads[0]) >= 20)
                                   else ('focus_' + ('seq' if sequential else 'threads') if focus else ('mixed_seq' if sequential else 'mixed_threads')))
    return {'prop': PROP, 'seed': seed, 'index': i, 'tier': tier, 'flavour': flavour, 'threads': threads, 'trace': trace, 'granularity': gran,
            'policy': policy, 'schedule': None, 'faults': faults, 'sink_faults': sink_faults, 'clock': clock,
            'bufsize': rng.choice((16, 512, 8192)), 'hashseed_probe': rng.random() < 0.5, 'hashseed': rng.randint(1, 10 ** 6), 'twin': twin}


def _twin_threads(rng, nthreads, small):
    base = ops.gen_make(rng, 's0', small=True, allow_bad=False)
    while base['fn'] == 'make_sequence' or base['fn'].startswith('helpers.'):
        base = ops.gen_make(rng, 's0', small=True, allow_bad=False)
    # twins use the same *feature* for the first time in the process at the same moment (first-use races of lazy
    # initialisation): make sure rarely used features (ECI, explicit encodings) are among them
    if base['fn'] in ('make', 'make_qr') and rng.random() < 0.3:
        kwb = core.dec(base['kw'])
        if kwb.get('micro') is not True and not isinstance(kwb.get('version'), str):
            kwb['eci'] = True
            kwb.pop('micro', None)
            if isinstance(core.dec(base['content']), str):
                kwb['encoding'] = rng.choice(('utf-8', 'iso-8859-15', 'cp1252', 'utf-8'))
                kwb.pop('mode', None)
            base = dict(base, kw=core.enc(kwb))
    what = rng.weighted([('save', 50), ('make', 28), ('miter', 8), ('uri', 7), ('cli', 7)])
    kinds = [rng.choice(opts.KINDS) for _ in range(rng.randint(1, 3))]
    threads = [[] for _ in range(nthreads)]
    symspec = {'fn': base['fn'], 'content': base['content'], 'kw': base['kw']}
    for j, kind in enumerate(kinds):
        for t in range(nthreads):
            name = 't%do%d' % (t, j)
            if what == 'cli':
                spec = ops.gen_cli(rng, name, allow_bad=False)    # concurrent invocations of the command line entry point
            elif what == 'make':
                spec = dict(base, id='s%d_%d' % (t, j))
                if 'mask' in base['kw'] and j % 2 == 0:
                    spec['kw'] = {k: v for k, v in base['kw'].items() if k != 'mask'}
                if t > 0:
                    c = core.dec(base['content'])
                    if isinstance(c, str) and c:
                        c = ''.join(reversed(c)) if t == 1 else c[1:] + c[:1]      # same length and mode, other data
                    spec['content'] = core.enc(c)
            elif what == 'miter':
                spec = {'op': 'miter', 'sym': None, 'symspec': symspec, 'name': name, 'scale': rng.choice((1, 2, 3)), 'border': rng.choice((None, 0, 3)),
                        'verbose': j % 2 == 0, 'consume': 'all', 'rows': 3}
            elif what == 'uri':
                which = ('png_data_uri', 'svg_data_uri', 'svg_inline')[j % 3]
                skw = opts.gen_ser_opts(rng, 'png' if which == 'png_data_uri' else 'svg', cli=False)
                for k in ('xmldecl', 'svgns', 'nl'):
                    skw.pop(k, None)
                spec = {'op': 'uri', 'sym': None, 'symspec': symspec, 'name': name, 'which': which, 'skw': core.enc(skw)}
            else:
                skw = opts.gen_ser_opts(rng, kind, cli=False)
                if kind in opts.COLORFUL_KINDS or kind in ('eps', 'pdf', 'pam', 'xpm'):
                    skw['dark'] = rng.choice(opts.RGB_COLORS)
                    if kind in opts.COLORFUL_KINDS and rng.random() < 0.7:
                        skw[rng.choice(opts.MODULE_COLOR_KEYS)] = rng.choice(opts.RGB_COLORS)
                spec = {'op': 'save', 'sym': None, 'symspec': symspec, 'name': name, 'kind': kind, 'skw': core.enc(skw),
                        'route': rng.choice(('stream', 'stream', 'path'))}
            threads[t].append(spec)
    return threads, [base]


def _viol(clause, msg, **detail):
    return {'clause': clause, 'msg': msg, 'detail': detail}


def _is_oserror_result(r):
    return isinstance(r, dict) and 'exc' in r and r['exc'][0] in ops.OSERROR_NAMES


def execute(sc):
    segno = core.import_segno()
    tier = sc.get('tier', 'quick')
    counters = {'runs': 1}
    viols = []
    res = {'violations': viols, 'counters': counters, 'nontrivial': False, 'scenario': sc}
    tables0 = snapshot_tables()
    # ---- goldens in pristine children (this process has not called segno yet)
    goldens = {}
    all_specs = [(t, k, spec) for t, th in enumerate(sc['threads']) for k, spec in enumerate(th)]
    for t, k, spec in all_specs:
        key = core.digest(spec)
        if key not in goldens:
            goldens[key] = core.run_forked(golden_of, (spec,), timeout=120)
    counters['goldens'] = len(goldens)
    if sc.get('hashseed_probe'):
        probe = _hashseed_probe([spec for _, _, spec in all_specs], sc['hashseed'])
        counters['hashseed_probes'] = 1
        for (t, k, spec), r in zip(all_specs, probe):
            if r != goldens[core.digest(spec)]:
                viols.append(_viol('c15.hashseed', 'operation %s gives a different result in a fresh interpreter with PYTHONHASHSEED=%d: %s'
                                   % (_opname(spec), sc['hashseed'], _diff(goldens[core.digest(spec)], r)), thread=t, op=k))
    # ---- the shared world
    clock = world.SimClock(**sc['clock'])
    w = world.World(clock=clock, faults=sc['sink_faults'], bufsize=sc['bufsize']).install()
    n = len(sc['threads'])
    S = sched.Scheduler(n, policy=sc['policy'], explicit=sc.get('schedule'), granularity=sc['granularity'],
                        step_budget=STEP_BUDGET[tier], faults=sc['faults'], clock=clock, trace=sc['trace'])
    streams = [(world.SimTextStream(w.plan, 'stdout-%d' % t), world.SimTextStream(w.plan, 'stderr-%d' % t)) for t in range(n)]
    symbols = {}
    registry = []   # (id, object, snapshot)
    oplog = []
    stats = {'ops': {}, 'aborted': 0, 'sink_faulted_ops': 0, 'new_module_attrs': 0}

    def cur_stream(idx):
        def f():
            t = S.tid_of.get(threading.get_ident())
            return streams[t if t is not None else 0][idx]
        return f
    old_std = sys.stdout, sys.stderr
    sys.stdout, sys.stderr = world.StdProxy(cur_stream(0)), world.StdProxy(cur_stream(1))

    def snap_sym(q):
        if isinstance(q, tuple):
            return [(ops.matrix_bytes(x), ops.sym_summary(x)) for x in q]
        return [(ops.matrix_bytes(q), ops.sym_summary(q))]

    def check_invariants(t, k, spec, when):
        changed, new = diff_tables(tables0)
        if changed:
            viols.append(_viol('c15.tables', 'after %s (%s): module-level table(s) modified: %s' % (_opname(spec), when, changed[:5]), thread=t, op=k))
        stats['new_module_attrs'] = max(stats['new_module_attrs'], len(new))
        for sid, q, snap in registry:
            if snap_sym(q) != snap:
                viols.append(_viol('c15.symbol', 'after %s (%s): previously returned symbol %s has changed' % (_opname(spec), when, sid), thread=t, op=k, sym=sid))
                break

    def body(t):
        ctx = ops.Ctx(w, symbols=symbols, client=t, stdout=streams[t][0], stderr=streams[t][1], swap_std=False)
        for k, spec in enumerate(sc['threads'][t]):
            spec_before = json.dumps(spec, sort_keys=True)
            S.begin_op(t, k)
            aborted = None
            try:
                result, q = ops.execute_op(segno, spec, ctx)
            except sched.SimAbort as ex:
                result, q, aborted = None, None, 'abort'
            except sched.StepBudgetExceeded as ex:
                result, q, aborted = None, None, 'budget'
                viols.append(_viol('c15.liveness', str(ex), thread=t, op=k))
            finally:
                S.end_op(t)
            stats['ops'][spec['op']] = stats['ops'].get(spec['op'], 0) + 1
            oplog.append([t, k, spec['op'], aborted, S.opsteps[t], None if result is None else core.digest(result)])
            if aborted:
                stats['aborted'] += 1
            else:
                gold = goldens[core.digest(spec)]
                targeted = any(f['name'] and spec.get('name') and spec['name'] in f['name'] for f in w.plan.fired)
                mem_injected = any(f['thread'] == t and f['op'] == k and f['kind'] == 'memerr' for f in S.fired)
                if spec['op'] == 'miter' and isinstance(result, dict) and result.get('ok', {}).get('consistent') is False:
                    viols.append(_viol('c15.result', '%s: %s' % (_opname(spec), '; '.join(result['ok']['problems'])), thread=t, op=k))
                elif isinstance(result, dict) and result.get('exc', [''])[0] == 'ArgsModified':
                    viols.append(_viol('c15.args', '%s: %s' % (_opname(spec), result['exc'][1][:200]), thread=t, op=k))
                elif result != gold:
                    if targeted and (_is_oserror_result(result) or (spec['op'] == 'cli' and result.get('ok', {}).get('status') != 0)):
                        stats['sink_faulted_ops'] += 1
                    elif mem_injected and isinstance(result, dict) and (result.get('exc', [''])[0] in ('InjectedMemoryError', 'MemoryError')
                                                                         or (spec['op'] == 'cli' and result.get('ok', {}).get('status') != 0)):
                        stats['aborted'] += 1
                    elif spec['op'] == 'reencode' and 'ok' in result and not result['ok']['same']:
                        viols.append(_viol('c15.idempotent', 're-encoding %s with the reported version/error/mask and boost_error=False gives a different matrix: %s'
                                           % (_opname(spec), _diff(result['ok']['a'], result['ok']['b'])), thread=t, op=k))
                    else:
                        viols.append(_viol('c15.result', '%s: result differs from the result of the same call in a pristine process: %s'
                                           % (_opname(spec), _diff(gold, result)), thread=t, op=k))
                elif spec['op'] == 'reencode' and 'ok' in result and not result['ok']['same']:
                    viols.append(_viol('c15.idempotent', 're-encoding %s with the reported version/error/mask and boost_error=False gives a different matrix: %s'
                                       % (_opname(spec), _diff(result['ok']['a'], result['ok']['b'])), thread=t, op=k, pristine=True))
                if q is not None and spec['op'] == 'make':
                    symbols[spec['id']] = q
                    registry.append((spec['id'], q, snap_sym(q)))
            if json.dumps(spec, sort_keys=True) != spec_before:
                viols.append(_viol('c15.args', '%s modified its arguments' % _opname(spec), thread=t, op=k))
            check_invariants(t, k, spec, 'aborted' if aborted else 'completed')

    try:
        S.run([body] * n, wall_timeout=600)
    finally:
        sys.stdout, sys.stderr = old_std
    # end-of-run invariants
    changed, new = diff_tables(tables0)
    if changed and not any(v['clause'] == 'c15.tables' for v in viols):
        viols.append(_viol('c15.tables', 'at end of run: module-level table(s) modified: %s' % changed[:5]))
    counters.update({
        'ops': stats['ops'], 'ops_aborted_by_injected_fault': stats['aborted'], 'ops_hit_by_sink_fault': stats['sink_faulted_ops'],
        'sim_steps': S.steps, 'context_switches': S.switches, 'context_switches_inside_ops': S.switches_in_op,
        'sim_clock_span_s': clock.span, 'max_op_steps': {'max': S.max_op_steps},
        'faults_fired': {}, 'granularity': {sc['granularity'] if sc['trace'] else 'untraced': 1},
        'policy': {sc['policy']['kind'] if sc['trace'] else 'sequential-history': 1},
        'new_module_attrs': {'max': stats['new_module_attrs']},
        'flavour': {sc.get('flavour', 'unknown'): 1},
        'rendezvous': S.rendezvous,
    })
    # "this rare condition was hit" probes: pre-emptions and injected faults that landed inside functions holding in-flight state
    probe_pre = counters.setdefault('preempted_inside', {})
    for (_, _, _, where) in S.log:
        if where and where[0] in PROBE_FUNCS:
            probe_pre[where[0]] = probe_pre.get(where[0], 0) + 1
    probe_ab = counters.setdefault('fault_landed_inside', {})
    for f in S.fired:
        fn = f['where'][0]
        if fn in PROBE_FUNCS:
            probe_ab[fn] = probe_ab.get(fn, 0) + 1
    for f in S.fired:
        counters['faults_fired'][f['kind']] = counters['faults_fired'].get(f['kind'], 0) + 1
    for f in w.plan.fired:
        kf = 'sink_%s' % f['op']
        counters['faults_fired'][kf] = counters['faults_fired'].get(kf, 0) + 1
    res['sets'] = {'interleaving_pairs': sorted('%s|%s' % p for p in S.pairs)}
    res['nontrivial'] = bool(S.switches_in_op or S.fired or w.plan.fired or (not sc['trace'] and len(oplog) > 1))
    res['digest'] = core.digest([S.digest(), oplog])
    explicit = dict(sc, schedule=S.recorded if sc['trace'] else None)
    res['scenario'] = explicit
    res['sample'] = {'threads': [[_opname(s) for s in th] for th in sc['threads']], 'granularity': sc['granularity'], 'trace': sc['trace'],
                     'policy': sc['policy'], 'schedule_head': S.recorded[:12], 'switches': S.switches, 'steps': S.steps,
                     'faults_fired': S.fired[:4] + w.plan.fired[:2]}
    return res


def _opname(spec):
    if spec['op'] == 'make':
        c = core.dec(spec['content'])
        return '%s(%s%s)' % (spec['fn'], (repr(c)[:30] + ', ') if c is not None else '', ', '.join('%s=%r' % kv for kv in sorted(core.dec(spec['kw']).items()))[:80])
    if spec['op'] == 'save':
        return 'save[%s %s %s](%s)' % (spec['route'], spec['kind'], spec['sym'], ', '.join('%s=%r' % kv for kv in sorted(core.dec(spec['skw']).items()))[:60])
    if spec['op'] == 'cli':
        return 'cli(%s)' % ' '.join(core.dec(spec['argv']))[:90]
    return '%s[%s]' % (spec.get('which', spec['op']), spec.get('sym'))


def _diff(a, b):
    if isinstance(a, dict) and isinstance(b, dict):
        if 'ok' in a and 'ok' in b and isinstance(a['ok'], dict) and isinstance(b['ok'], dict):
            return _diff(a['ok'], b['ok'])
        keys = [k for k in sorted(set(a) | set(b)) if a.get(k) != b.get(k)]
        return '; '.join('%s: %s -> %s' % (k, json.dumps(a.get(k), default=str)[:70], json.dumps(b.get(k), default=str)[:70]) for k in keys[:3])
    return '%s -> %s' % (json.dumps(a, default=str)[:90], json.dumps(b, default=str)[:90])


def _hashseed_probe(specs, hashseed):
    env = dict(os.environ, PYTHONHASHSEED=str(hashseed), SEGNO_REPO=core.REPO)
    specs = list(reversed(specs))   # different order on purpose
    p = subprocess.run([sys.executable, os.path.join(core.VERIF, 'sim', 'golden_main.py')], input=json.dumps(specs).encode(),
                       stdout=subprocess.PIPE, stderr=subprocess.PIPE, env=env, timeout=600)
    if p.returncode != 0:
        raise core.HarnessError('hashseed probe failed: %s' % p.stderr.decode()[-400:])
    return list(reversed(json.loads(p.stdout)))


# ----------------------------------------------------------------------------------------
def signature(sc, v):
    d = v['detail']
    try:
        spec = sc['threads'][d['thread']][d['op']]
        return (spec['op'], spec.get('fn') or spec.get('kind') or spec.get('which'))
    except (KeyError, IndexError, TypeError):
        return v['msg'][:40]


def minimise(sc, viol, fails):
    cur = dict(sc)

    def try_(cand):
        nonlocal cur
        if fails(cand):
            cur = cand
            return True
        return False
    # without injected faults
    if cur['faults']:
        try_(dict(cur, faults=[]))
    if cur.get('sink_faults'):
        try_(dict(cur, sink_faults=[]))
    try_(dict(cur, clock=dict(cur['clock'], mode='frozen')))
    # drop whole threads (schedule entries of dropped threads are skipped by the scheduler; indices are remapped)
    t = len(cur['threads']) - 1
    while t >= 0 and len(cur['threads']) > 1:
        cand = _drop_thread(cur, t)
        try_(cand)
        t -= 1
    # drop operations (faults refer to op indices: only ops after the last referenced one, or re-index)
    changed = True
    while changed:
        changed = False
        for t in range(len(cur['threads'])):
            for k in reversed(range(len(cur['threads'][t]))):
                if len(cur['threads'][t]) <= 1 and len(cur['threads']) == 1:
                    continue
                cand = _drop_op(cur, t, k)
                if cand is not None and try_(cand):
                    changed = True
    # fewer context switches: try sequential, then merge slices
    if cur.get('schedule'):
        if not try_(dict(cur, schedule=[[t, 1 << 40] for t in range(len(cur['threads']))])):
            sl = core.ddmin_list(cur['schedule'], lambda s: fails(dict(cur, schedule=_merge(s))), max_tests=60)
            cur = dict(cur, schedule=_merge(sl))
    if cur['granularity'] == 'instr':
        pass
    return cur


def _merge(slices):
    out = []
    for t, n in slices:
        if out and out[-1][0] == t:
            out[-1][1] += n
        else:
            out.append([t, n])
    return out


def _drop_thread(sc, t):
    threads = [th for i, th in enumerate(sc['threads']) if i != t]

    def remap(x):
        return x if x < t else x - 1
    sched_ = None
    if sc.get('schedule') is not None:
        sched_ = _merge([[remap(a), b] for a, b in sc['schedule'] if a != t])
    faults = [dict(f, thread=remap(f['thread'])) for f in sc['faults'] if f['thread'] != t]
    pol = dict(sc['policy'], victim=0)
    return dict(sc, threads=threads, schedule=sched_, faults=faults, policy=pol)


def _drop_op(sc, t, k):
    if any(f['thread'] == t and f['op'] == k for f in sc['faults']):
        return None
    threads = [list(th) for th in sc['threads']]
    del threads[t][k]
    if not threads[t]:
        return _drop_thread(dict(sc, threads=threads), t) if len(threads) > 1 else None
    faults = [dict(f, op=f['op'] - 1) if (f['thread'] == t and f['op'] > k) else f for f in sc['faults']]
    return dict(sc, threads=threads, faults=faults)


def known(sc, viol):
    from . import known as known_mod
    return known_mod.match(PROP, sc, viol)


def coverage_rule():
    return ('one run = 1-4 simulated clients (real threads, one baton) issuing make*/helper/save (12 kinds; stream, path, .svgz)/data-URI/'
            'svg_inline/terminal/matrix_iter (fully or half consumed)/cli.main/refused+malformed calls/re-encode operations against one shared '
            'library, file system and clock. Flavours (counters.flavour): mixed_threads and focus_threads (pre-empted at seeded line or, ~15%, '
            'bytecode-instruction boundaries; policies geometric/fixed/starve/sequential), twin (same kind of call, different options, near-lockstep '
            'round-robin slices of 1-8 steps), mixed_seq / focus_seq / idem_sweep (untraced sequential histories: related calls, 8-20 saves of one '
            'writer, 10-28 symbols each re-encoded). Faults: aborts, MemoryErrors and clock jumps at seeded steps or inside named functions, sink '
            'faults; 50% of the runs get a second set of goldens from a fresh interpreter under another PYTHONHASHSEED. distinct = distinct digest '
            'of (realised schedule, context-switch log, fired faults, per-operation results); non-trivial = at least one context switch inside an '
            'operation, or a fired fault, or a sequential history of >= 2 operations')


def tier_params(tier):
    if tier == 'quick':
        return {'runs': 560, 'run_timeout': 900.0, 'wall_cap': 2400}
    return {'budget_s': 900, 'min_runs': 560, 'run_timeout': 1800.0, 'wall_cap': 5400}


def finish_coverage(cov, counters):
    cov['faults_fired'] = counters.get('faults_fired', {})
    cov['sim_steps'] = counters.get('sim_steps', 0)
    cov['sim_clock_span_s'] = counters.get('sim_clock_span_s', 0)
    cov['context_switches'] = counters.get('context_switches', 0)
