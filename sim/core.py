"""Core of the deterministic simulation harness: seed derivation, pristine-fork runner,
batch driver, digests, replay I/O, ddmin minimiser helpers, evidence writer.

Nothing in here calls a segno function: worker processes import segno (from /repo's
working tree) and the simulator, and every run is executed in a child forked from that
pristine state, so no run can see state left behind by another run.
"""
import hashlib
import json
import os
import random
import select
import signal
import sys
import time
import traceback

REPO = os.environ.get('SEGNO_REPO', '/repo')
VERIF = os.path.dirname(os.path.dirname(os.path.abspath(__file__)))
DEFAULT_SEED = 20261002


class HarnessError(Exception):
    """Something went wrong in the machinery (not a property violation)."""


def import_segno():
    """Imports segno from REPO's working tree and asserts that it really comes from there."""
    if sys.path[0] != REPO:
        sys.path.insert(0, REPO)
    import segno
    import segno.cli  # noqa: F401
    import segno.helpers  # noqa: F401
    src = os.path.realpath(segno.__file__)
    if not src.startswith(os.path.realpath(REPO) + os.sep):
        raise HarnessError('segno imported from %s, not from %s' % (src, REPO))
    return segno


def derive_seed(batch_seed, prop, i):
    h = hashlib.sha256(('%d/%s/%d' % (batch_seed, prop, i)).encode()).hexdigest()
    return int(h[:16], 16)


def digest(obj):
    return hashlib.sha256(json.dumps(obj, sort_keys=True, default=_json_default).encode()).hexdigest()[:24]


def _json_default(o):
    if isinstance(o, (bytes, bytearray)):
        return {'__b': bytes(o).hex()}
    if isinstance(o, (set, frozenset)):
        return sorted(o, key=repr)
    if isinstance(o, tuple):
        return list(o)
    return repr(o)


def jdump(obj, **kw):
    return json.dumps(obj, default=_json_default, **kw)


# ----------------------------------------------------------------------------------------
# values that must survive a JSON round trip inside scenarios (bytes, tuples)
def enc(v):
    """Encodes a python value (str/int/float/bool/None/bytes/tuple/list/dict) into JSON-safe form."""
    if isinstance(v, bytes):
        return {'__b': v.hex()}
    if isinstance(v, tuple):
        return {'__t': [enc(x) for x in v]}
    if isinstance(v, list):
        return [enc(x) for x in v]
    if isinstance(v, dict):
        return {k: enc(x) for k, x in v.items()}
    return v


def dec(v):
    if isinstance(v, dict):
        if '__b' in v and len(v) == 1:
            return bytes.fromhex(v['__b'])
        if '__t' in v and len(v) == 1:
            return tuple(dec(x) for x in v['__t'])
        return {k: dec(x) for k, x in v.items()}
    if isinstance(v, list):
        return [dec(x) for x in v]
    return v


# ----------------------------------------------------------------------------------------
def run_forked(fn, args=(), timeout=120.0):
    """Runs fn(*args) in a forked child and returns its (JSON-able) result.

    Raises HarnessError if the child dies, raises, or exceeds the wall-clock timeout.
    """
    r, w = os.pipe()
    sys.stdout.flush()
    sys.stderr.flush()
    pid = os.fork()
    if pid == 0:
        code = 0
        try:
            os.close(r)
            try:
                res = {'ok': fn(*args)}
            except BaseException:  # noqa
                res = {'err': traceback.format_exc()}
            data = jdump(res).encode()
            with os.fdopen(w, 'wb') as f:
                f.write(data)
        except BaseException:  # noqa
            code = 3
        finally:
            os._exit(code)
    os.close(w)
    chunks = []
    deadline = time.monotonic() + timeout
    timed_out = False
    while True:
        left = deadline - time.monotonic()
        if left <= 0:
            timed_out = True
            break
        rl, _, _ = select.select([r], [], [], left)
        if not rl:
            timed_out = True
            break
        b = os.read(r, 1 << 16)
        if not b:
            break
        chunks.append(b)
    os.close(r)
    if timed_out:
        try:
            os.kill(pid, signal.SIGKILL)
        except ProcessLookupError:
            pass
        os.waitpid(pid, 0)
        raise HarnessError('run exceeded wall-clock timeout of %.0fs' % timeout)
    _, status = os.waitpid(pid, 0)
    if not chunks:
        raise HarnessError('run child died without result (status %r)' % status)
    res = json.loads(b''.join(chunks))
    if 'err' in res:
        raise HarnessError('run child raised:\n' + res['err'])
    return res['ok']


# ----------------------------------------------------------------------------------------
def run_batch(run_index_fn, n_runs=None, budget_s=None, jobs=16, run_timeout=120.0, wall_cap=None,
              min_runs=1, is_bad=None, stop_after_bad=4):
    """Executes run_index_fn(i) for i = 0, 1, 2, ... in forked children of `jobs` workers.

    Workers take the next free index from a shared counter.  Stops after n_runs runs (if given) and/or when
    budget_s seconds have elapsed (whichever comes first; at least min_runs indices are always run).
    Returns (results: dict index -> result, errors: list of (index, text)).
    `wall_cap`: hard cap; if hit, a HarnessError is recorded (never a clean exit).
    """
    start = time.monotonic()
    if n_runs is not None:
        jobs = max(1, min(jobs, n_runs))
    soft_deadline = start + budget_s if budget_s is not None else None
    hard_deadline = start + wall_cap if wall_cap is not None else None
    workers = []
    sys.stdout.flush()
    sys.stderr.flush()
    # shared run-index counter (a locked scratch file): workers take the next index when they are free, so one
    # expensive run does not hold up the indices statically assigned behind it. Which worker executes a run has no
    # influence on the run (everything derives from the index), only on the wall clock.
    import tempfile
    counter_fd, counter_path = tempfile.mkstemp(prefix='segno-sim-counter-')
    os.unlink(counter_path)
    os.write(counter_fd, (0).to_bytes(8, 'little'))
    for k in range(jobs):
        r, w = os.pipe()
        pid = os.fork()
        if pid == 0:
            try:
                os.close(r)
                for (_, rr) in workers:
                    os.close(rr)
                out = os.fdopen(w, 'wb')
                nbad = 0
                while True:
                    if nbad >= stop_after_bad:
                        break   # enough failing runs seen by this worker: do not spend the batch on re-finding them
                    i = _next_index(counter_fd)
                    if n_runs is not None and i >= n_runs:
                        break
                    if soft_deadline is not None and time.monotonic() > soft_deadline and i >= min_runs:
                        break
                    try:
                        res = run_forked(run_index_fn, (i,), timeout=run_timeout)
                        msg = {'i': i, 'res': res}
                        if is_bad is not None and is_bad(res):
                            nbad += 1
                    except HarnessError as ex:
                        msg = {'i': i, 'herr': str(ex)}
                    out.write(jdump(msg).encode() + b'\n')
                    out.flush()
                out.write(b'{"done": true}\n')
                out.flush()
                out.close()
            finally:
                os._exit(0)
        os.close(w)
        workers.append((pid, r))
    results, errors = {}, []
    bufs = {r: b'' for _, r in workers}
    done = {r: False for _, r in workers}
    open_fds = set(bufs)
    while open_fds:
        to = None
        if hard_deadline is not None:
            to = hard_deadline - time.monotonic()
            if to <= 0:
                errors.append((-1, 'batch exceeded hard wall-clock cap of %.0fs' % wall_cap))
                for pid, _ in workers:
                    try:
                        os.kill(pid, signal.SIGKILL)
                    except ProcessLookupError:
                        pass
                break
        rl, _, _ = select.select(list(open_fds), [], [], to)
        for r in rl:
            b = os.read(r, 1 << 20)
            if not b:
                open_fds.discard(r)
                if not done[r]:
                    errors.append((-1, 'worker died without finishing'))
                continue
            bufs[r] += b
            while b'\n' in bufs[r]:
                line, bufs[r] = bufs[r].split(b'\n', 1)
                msg = json.loads(line)
                if msg.get('done'):
                    done[r] = True
                elif 'herr' in msg:
                    errors.append((msg['i'], msg['herr']))
                else:
                    results[msg['i']] = msg['res']
    os.close(counter_fd)
    for pid, r in workers:
        try:
            os.close(r)
        except OSError:
            pass
        try:
            os.waitpid(pid, 0)
        except ChildProcessError:
            pass
    return results, errors


# ----------------------------------------------------------------------------------------
def _next_index(fd):
    import fcntl
    fcntl.lockf(fd, fcntl.LOCK_EX)
    try:
        os.lseek(fd, 0, 0)
        i = int.from_bytes(os.read(fd, 8), 'little')
        os.lseek(fd, 0, 0)
        os.write(fd, (i + 1).to_bytes(8, 'little'))
    finally:
        fcntl.lockf(fd, fcntl.LOCK_UN)
    return i


def ddmin_list(items, still_fails, max_tests=400):
    """Greedy delta debugging on a list: returns a (locally) minimal sub-list for which
    still_fails(sublist) is True. still_fails(items) is assumed True."""
    tests = 0
    n = 2
    items = list(items)
    while len(items) >= 1 and tests < max_tests:
        if len(items) == 1:
            tests += 1
            if still_fails([]):
                return []
            return items
        chunk = max(1, len(items) // n)
        reduced = False
        for start in range(0, len(items), chunk):
            cand = items[:start] + items[start + chunk:]
            tests += 1
            if still_fails(cand):
                items = cand
                n = max(n - 1, 2)
                reduced = True
                break
            if tests >= max_tests:
                break
        if not reduced:
            if chunk == 1:
                break
            n = min(len(items), n * 2)
    return items


# ----------------------------------------------------------------------------------------
def write_replay(prop, seed, record):
    d = os.environ.get('VERIF_REPLAY_DIR') or os.path.join(VERIF, 'replays')
    os.makedirs(d, exist_ok=True)
    path = os.path.join(d, '%s-%s.json' % (prop, seed))
    with open(path, 'w') as f:
        f.write(jdump(record, indent=1, sort_keys=True))
    return path


def load_json(path):
    with open(path) as f:
        return json.load(f)


def write_evidence(prop, tier, seed, coverage, wall_s, violations, assumptions, extra=None):
    d = os.environ.get('VERIF_EVIDENCE_DIR') or os.path.join(VERIF, 'evidence')
    os.makedirs(d, exist_ok=True)
    ev = {'property_id': prop, 'tier': tier, 'seed': seed, 'level': 'exploration',
          'coverage': coverage, 'assumptions': assumptions, 'wall_s': round(wall_s, 2),
          'violations': violations}
    if extra:
        ev.update(extra)
    tmp = os.path.join(d, '.%s.json.tmp' % prop)
    with open(tmp, 'w') as f:
        f.write(jdump(ev, indent=1, sort_keys=True))
    os.replace(tmp, os.path.join(d, '%s.json' % prop))
    return ev


def merge_counters(dst, src):
    for k, v in src.items():
        if isinstance(v, dict):
            merge_counters(dst.setdefault(k, {}), v)
        elif isinstance(v, (int, float)):
            dst[k] = max(dst.get(k, 0), v) if k == 'max' else dst.get(k, 0) + v
    return dst


class R(random.Random):
    """random.Random with a few convenience draws. Only ever seeded from a derived run seed."""

    def chance(self, p):
        return self.random() < p

    def pick(self, seq):
        return seq[self.randrange(len(seq))]

    def weighted(self, pairs):
        tot = sum(w for _, w in pairs)
        x = self.random() * tot
        for v, w in pairs:
            x -= w
            if x < 0:
                return v
        return pairs[-1][0]
