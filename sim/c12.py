"""C12 -- all output routes give the same document for the same symbol and options.

The routes are the parties of the simulation; they run in a seeded order against one
simulated file system (which observes exactly which files exist and whether they were
closed), one simulated clock (frozen, or jumping at every read and between routes) and a
simulated process for the command line tool. Fault-free and fault-injecting configurations
are separate.
"""
import base64
import gzip
import io
import re
import urllib.parse

from . import core, opts, world, known as known_mod

PROP = 'C12'
ASSUMPTIONS = [
    'the CLI flag <-> keyword table in sim/opts.py (read off cli.py, DESIGN.md §10.4) is what "the corresponding flags" means',
    'options without a CLI flag (compresslevel, plain, name, url) stay at their defaults in runs that include the CLI route',
    'text documents are compared as UTF-8 bytes; SimFS encodes text-mode files as UTF-8 (the real default is the locale encoding)',
    'in the fault-free configuration every sink is fresh, empty and seekable',
    'for a sequence of one symbol the file name pattern is not checked (QRCodeSequence documents that it behaves like QRCode)',
    'the symbol / option part of each run is input sampling; what is simulated is the file system, the clock, the process and I/O faults',
]

_STAMPS = [re.compile(rb'(%%CreationDate: )[^\r\n]*'), re.compile(rb'(/CreationDate\(D:)[^)]*'), re.compile(rb'(% Date: )[^\r\n]*')]


def blank(doc):
    for rx in _STAMPS:
        doc = rx.sub(rb'\1', doc)
    return doc


def _b(v):
    return v.encode('utf-8') if isinstance(v, str) else bytes(v)


def _randcase(rng, s):
    return ''.join(ch.upper() if rng.random() < 0.5 else ch.lower() for ch in s)


def gen_scenario(batch_seed, i, tier):
    seed = core.derive_seed(batch_seed, PROP, i)
    rng = core.R(seed)
    config = 'fault' if rng.random() < 0.35 else 'fault_free'
    is_seq = rng.random() < 0.2
    cli = rng.random() < 0.6
    kind = rng.choice(opts.KINDS)
    content, mkw = opts.gen_symbol(rng, cli, seq=is_seq, maxlen=60 if is_seq else 40)
    if 'error' not in mkw and rng.random() < 0.1:
        mkw['error'] = None     # CLI spelling: --error=-
    skw = opts.gen_ser_opts(rng, kind, cli)
    if is_seq:
        routes = ['seq_ref', 'seq_save']
        if cli:
            routes.append('seq_cli')
    else:
        routes = ['stream', 'path', 'named_stream', 'file_handle']
        if rng.random() < 0.4:
            routes.append('path_twice')
        if kind == 'png':
            routes.append('png_uri')
        if kind == 'svg':
            routes += ['svg_uri', 'svg_inline', 'svgz', 'stream_svgz']
        if cli:
            routes += ['cli', 'cli_terminal']
            if kind == 'svg':
                routes.append('cli_svgz')
        routes += ['unknown_ext']
        if config == 'fault':
            routes.append('nonseekable')
    rng.shuffle(routes)
    # repeat a route sometimes (history: the same route after others must still agree)
    if rng.random() < 0.3:
        routes.append(rng.choice(routes))
    clock = {'t0': rng.choice((0.0, 86399.0, 951782399.0, 1790000000.0, 4102444799.0)) + rng.randint(0, 10 ** 6),
             'tz': rng.choice((0, -19800, 28800, 3600, -45900)),
             'mode': rng.choice(('frozen', 'jumping')),
             'deltas': [rng.choice((1, 59, 3600, 86400, -7200, 0.25, 31536000)) for _ in range(rng.randint(1, 5))]}
    faults = []
    if config == 'fault':
        for _ in range(rng.randint(1, 3)):
            op = rng.weighted([('write', 5), ('close', 3), ('open', 3)])
            faults.append({'op': op, 'target': rng.choice(('*', 'path', 'cli', 'seq', 'svgz', 'handle', 'stdout', 'named')),
                           'nth': rng.choice((0, 0, 0, 1, 2, 3, 5)),
                           'errno': rng.choice(('ENOSPC', 'EIO', 'EACCES', 'EROFS', 'EDQUOT') if op != 'open' else ('EACCES', 'ENOENT', 'EROFS', 'ENOSPC')),
                           'short': op == 'write' and rng.random() < 0.2})
    return {'prop': PROP, 'seed': seed, 'index': i, 'config': config, 'seq': is_seq, 'cli': cli, 'kind': kind,
            'content': core.enc(content), 'mkw': core.enc(mkw), 'skw': core.enc(skw), 'routes': routes,
            'ext_case': _randcase(rng, kind), 'kind_case': _randcase(rng, kind), 'svgz_case': _randcase(rng, 'svgz'),
            'clock': clock, 'bufsize': rng.choice((0, 16, 512, 8192)), 'faults': faults,
            'terminal': {'border': rng.choice((None, 0, 1, 4)), 'compact': rng.random() < 0.4},
            'argv_style': rng.choice((0, rng.getrandbits(32), rng.getrandbits(32))),
            'seq_name': rng.choice(('seq', 'seq', 'seq', 'se.q', 'my.seq.v2', 's{e}q', 's{}q', '{0}', 'out.d/seq', 'a-01-02', 's%dq'))}


def _viol(clause, msg, **detail):
    return {'clause': clause, 'msg': msg, 'detail': detail}


class Outcome:
    def __init__(self, route, doc=None, err=None, files=None, extra=None):
        self.route, self.doc, self.err, self.files, self.extra = route, doc, err, files or {}, extra


def execute(sc):
    segno = core.import_segno()
    content, mkw, skw = core.dec(sc['content']), core.dec(sc['mkw']), core.dec(sc['skw'])
    kind = sc['kind']
    binary = kind in opts.BINARY_KINDS
    counters = {'runs': 1, 'config': {sc['config']: 1}, 'kinds': {kind: 1}}
    viols = []
    res = {'violations': viols, 'counters': counters, 'nontrivial': False, 'scenario': sc}
    clock = world.SimClock(**sc['clock'])
    w = world.World(clock=clock, faults=sc['faults'] if sc['config'] == 'fault' else (), bufsize=sc['bufsize']).install()
    fs = w.fs
    log = w.events
    lib_mkw = opts.cli_equivalent_make_kw(mkw, sc['seq']) if sc['cli'] else mkw
    try:
        sym = (segno.make_sequence if sc['seq'] else segno.make)(content, **lib_mkw)
    except (ValueError, LookupError) as ex:
        counters['symbol_refused'] = 1
        res['digest'] = core.digest(['refused', str(ex)[:40]])
        return res
    outcomes = []
    ext = sc['ext_case']
    fired_before = 0

    def stamp_files(before):
        return {p: fs.files[p] for p in fs.files if p not in before}

    def run_route(r, n):
        before = set(fs.files)
        tag = '%s%d' % (r, n)
        try:
            if r == 'stream':
                out = io.BytesIO() if binary else io.StringIO()
                sym.save(out, kind=sc['kind_case'], **skw)
                return Outcome(r, _b(out.getvalue()), files=stamp_files(before))
            if r == 'path':
                p = '%s/path-%s.%s' % (('dir', 'out.d', 'a.b.c')[n % 3], tag, ext)
                sym.save(p, **skw)
                return Outcome(r, fs.files.get(p), files=stamp_files(before), extra=p)
            if r == 'path_twice':
                p = 'dir/twice-%s.%s' % (tag, ext)
                sym.save(p, **skw)
                first = fs.files.get(p)
                sym.save(p, **skw)
                o = Outcome(r, fs.files.get(p), files=stamp_files(before), extra=p)
                o.first = first
                return o
            if r == 'named_stream':
                out = world.SimStream('binary' if binary else 'text', name='named-%s.%s' % (tag, ext), plan=w.plan, label='named-' + tag)
                sym.save(out, **skw)
                o = Outcome(r, _b(out.getvalue()), files=stamp_files(before))
                o.closed_by_save = out.closed
                return o
            if r == 'nonseekable':
                out = world.SimStream('binary' if binary else 'text', seekable=False, plan=w.plan, label='nonseekable-' + tag)
                sym.save(out, kind=kind, **skw)
                return Outcome(r, _b(out.getvalue()), files=stamp_files(before))
            if r == 'file_handle':
                p = 'handle-%s.bin' % tag
                f = fs.open(p, 'wb' if binary else 'w')
                try:
                    sym.save(f, kind=kind, **skw)
                    still_open = not f.closed
                finally:
                    f.close()
                o = Outcome(r, fs.files.get(p), files={}, extra=p)
                o.still_open = still_open
                return o
            if r == 'png_uri':
                u = sym.png_data_uri(**skw)
                head, data = u.split(',', 1)
                o = Outcome(r, base64.b64decode(data), files=stamp_files(before))
                o.head = head
                return o
            if r == 'svg_uri':
                kw2 = dict(skw)
                kw2.setdefault('xmldecl', True)   # the data URI defaults differ (xmldecl/nl off): ask for the same document
                kw2.setdefault('nl', True)
                u = sym.svg_data_uri(**kw2)
                head, data = u.split(',', 1)
                o = Outcome(r, urllib.parse.unquote_to_bytes(data), files=stamp_files(before))
                o.head = head
                return o
            if r == 'svg_inline':
                kw2 = {k: v for k, v in skw.items() if k not in ('xmldecl', 'svgns', 'nl')}
                s = sym.svg_inline(**kw2)
                ref = io.BytesIO()
                sym.save(ref, kind='svg', xmldecl=False, svgns=False, nl=False, **kw2)
                o = Outcome(r, s.encode(kw2.get('encoding', 'utf-8')), files=stamp_files(before))
                o.ref = ref.getvalue()
                return o
            if r == 'svgz':
                p = 'svgz-%s.%s' % (tag, sc.get('svgz_case', 'svgz'))
                sym.save(p, **skw)
                raw = fs.files.get(p)
                return Outcome(r, gzip.decompress(raw), files=stamp_files(before), extra=p)
            if r == 'stream_svgz':
                # a caller-supplied binary stream (anonymous or named) with kind='svgz': the gzipped SVG goes into the stream
                out = io.BytesIO() if n % 2 else world.SimStream('binary', name='named-%s.bin' % tag, plan=w.plan, label='named-' + tag)
                sym.save(out, kind=sc.get('svgz_case', 'svgz'), **skw)
                o = Outcome(r, gzip.decompress(out.getvalue()), files=stamp_files(before))
                o.closed_by_save = out.closed
                return o
            if r == 'cli':
                p = 'cli-%s.%s' % (tag, ext)
                argv = opts.stylize(opts.make_argv(mkw) + opts.ser_argv(skw) + ['--output=' + p, content], sc.get('argv_style', 0))
                pr = world.run_cli(argv, plan=w.plan)
                o = Outcome(r, fs.files.get(p) if pr['status'] == 0 else None, files=stamp_files(before), extra=p)
                o.proc = pr
                o.argv = argv
                if pr['status'] != 0:
                    o.err = pr['exc'] or 'exit %s: %s' % (pr['status'], pr['stderr'][:80])
                return o
            if r == 'cli_svgz':
                p = 'clisvgz-%s.%s' % (tag, sc.get('svgz_case', 'svgz'))
                argv = opts.stylize(opts.make_argv(mkw) + opts.ser_argv(skw) + ['--output=' + p, content], sc.get('argv_style', 0))
                pr = world.run_cli(argv, plan=w.plan)
                raw = fs.files.get(p) if pr['status'] == 0 else None
                o = Outcome(r, gzip.decompress(raw) if raw else None, files=stamp_files(before), extra=p)
                o.proc = pr
                o.argv = argv
                if pr['status'] != 0:
                    o.err = pr['exc'] or 'exit %s: %s' % (pr['status'], pr['stderr'][:80])
                return o
            if r == 'cli_terminal':
                t = sc['terminal']
                argv = opts.stylize(opts.make_argv(mkw) + ([] if t['border'] is None else ['--border=%d' % t['border']]) + (['--compact'] if t['compact'] else []) + [content], sc.get('argv_style', 0))
                pr = world.run_cli(argv, plan=w.plan)
                o = Outcome(r, None, files=stamp_files(before))
                o.proc = pr
                o.argv = argv
                if pr['status'] != 0:
                    o.err = pr['exc'] or 'exit %s' % pr['status']
                    return o
                so = world.SimTextStream(w.plan, 'stdout-lib')
                import sys
                old = sys.stdout
                sys.stdout = so
                try:
                    sym.terminal(border=t['border'], compact=t['compact'])
                finally:
                    sys.stdout = old
                o.lib_stdout = so.getvalue()
                buf = io.StringIO()
                sym.terminal(out=buf, border=t['border'], compact=t['compact'])
                o.lib_stream = buf.getvalue()
                return o
            if r == 'unknown_ext':
                o = Outcome(r, None)
                o.results = []
                for target, kw in (('x-%s.foo' % tag, {}), (io.BytesIO(), {'kind': 'foo'}), ('noext-%s' % tag, {})):
                    try:
                        sym.save(target, **kw)
                        o.results.append('returned')
                    except ValueError as ex:
                        o.results.append('ValueError')
                    except Exception as ex:  # noqa
                        o.results.append(type(ex).__name__)
                o.files = stamp_files(before)
                return o
            if r == 'seq_ref':
                docs = []
                for q in sym:
                    out = io.BytesIO() if binary else io.StringIO()
                    q.save(out, kind=kind, **skw)
                    docs.append(_b(out.getvalue()))
                o = Outcome(r, None, files=stamp_files(before))
                o.docs = docs
                return o
            if r == 'seq_save':
                base = '%s-%s' % (sc.get('seq_name', 'seq'), tag)
                sym.save('%s.%s' % (base, ext), **skw)
                o = Outcome(r, None, files=stamp_files(before), extra=base)
                return o
            if r == 'seq_cli':
                base = '%s-cli-%s' % (sc.get('seq_name', 'seq'), tag)
                argv = opts.stylize(opts.make_argv(mkw, seq=True) + opts.ser_argv(skw) + ['--output=%s.%s' % (base, ext), content], sc.get('argv_style', 0))
                pr = world.run_cli(argv, plan=w.plan)
                o = Outcome(r, None, files=stamp_files(before), extra=base)
                o.proc = pr
                o.argv = argv
                if pr['status'] != 0:
                    o.err = pr['exc'] or 'exit %s: %s' % (pr['status'], pr['stderr'][:80])
                return o
            raise core.HarnessError('unknown route %s' % r)
        except OSError as ex:
            return Outcome(r, None, err='OSError:%s' % type(ex).__name__, files=stamp_files(before))
        except ValueError as ex:
            return Outcome(r, None, err='ValueError: %s' % ex, files=stamp_files(before))
        except core.HarnessError:
            raise
        except Exception as ex:  # noqa -- which exception type escapes is C14's business; here it is a failed route
            return Outcome(r, None, err='ValueError(other): %s: %s' % (type(ex).__name__, ex), files=stamp_files(before))

    for n, r in enumerate(sc['routes']):
        if clock.mode == 'jumping':
            clock.advance(clock.deltas[n % len(clock.deltas)] * 7)
        nf = len(w.plan.fired)
        o = run_route(r, n)
        o.faulted = len(w.plan.fired) > nf
        o.n = n
        outcomes.append(o)
        log.append(['route', r, o.err, o.faulted, None if o.doc is None else len(o.doc)])

    fault_cfg = sc['config'] == 'fault'
    counters['routes'] = {}
    for o in outcomes:
        counters['routes'][o.route] = counters['routes'].get(o.route, 0) + 1
    counters['faults_fired'] = {}
    for f in w.plan.fired:
        k = '%s:%s%s' % (f['op'], f['errno'], ':short' if f['short'] else '')
        counters['faults_fired'][k] = counters['faults_fired'].get(k, 0) + 1
    counters['sim_clock_span_s'] = clock.span
    counters['clock_reads'] = clock.reads
    counters['clock_mode'] = {clock.mode: 1}

    def fail_allowed(o):
        # C12 speaks about documents that were produced. In the fault configuration a route during which an injected
        # fault fired may fail in whatever way the code chooses (exception, CLI message + status != 0); a non-seekable
        # sink may make any route fail (write_pdf needs tell()). Nothing else excuses a failed route.
        if not fault_cfg or o.err is None:
            return False
        return bool(o.faulted) or o.route == 'nonseekable'

    # ---------------- single symbol
    if not sc['seq']:
        # option sets the serialiser refuses: every route must refuse
        docroutes = [o for o in outcomes if o.route in ('stream', 'path', 'path_twice', 'named_stream', 'stream_svgz', 'file_handle', 'png_uri', 'svg_uri',
                                                        'svgz', 'cli', 'cli_svgz', 'nonseekable')]
        # a route "refuses" when the library raises anything but an I/O error (which exception type escapes is C14's
        # business): ValueError..., or through the CLI a non-zero status caused by a non-OSError exception / message
        def _refuses(o):
            if not o.err:
                return False
            if o.err.startswith('ValueError'):
                return True
            if o.route in ('cli', 'cli_svgz'):
                return not o.faulted and o.err.split(':')[0] not in _OSERRORS
            return False
        refusing = [o for o in docroutes if _refuses(o)]
        if refusing and all(o in refusing for o in docroutes if not fail_allowed(o)) and not any(o.route in ('cli', 'cli_svgz') and o.proc['status'] == 0 for o in docroutes):
            counters['options_refused_by_all_routes'] = 1
            res['digest'] = core.digest(log)
            res['sample'] = _sample(sc, outcomes)
            return res
        good = []
        for o in docroutes:
            if o.err is not None:
                if fail_allowed(o):
                    counters['routes_failed_under_fault'] = counters.get('routes_failed_under_fault', 0) + 1
                    continue
                viols.append(_viol('c12.identical', 'route %s failed (%s) although other routes produce the document' % (o.route, o.err),
                                   route=o.route))
                continue
            if o.doc is None:
                viols.append(_viol('c12.files', 'route %s returned normally but its file %r does not exist' % (o.route, o.extra), route=o.route))
                continue
            good.append(o)
        ref = next((o for o in good if o.route == 'stream' and not o.faulted), None) or next((o for o in good if not o.faulted), None)
        if ref is not None:
            for o in good:
                if o is ref:
                    continue
                clause = 'c12.fault.complete' if o.faulted else ('c12.fault.isolation' if fault_cfg and w.plan.fired else 'c12.identical')
                a, b_ = blank(o.doc), blank(ref.doc)
                if a != b_:
                    d6 = o.route == 'svg_uri' and a == known_mod.d6_quote_substitution(b_)
                    viols.append(_viol(clause, 'route %s differs from route %s (%d vs %d bytes, first difference at byte %d: %r vs %r)'
                                       % (o.route, ref.route, len(a), len(b_), _fd(a, b_), a[_fd(a, b_):_fd(a, b_) + 24], b_[_fd(a, b_):_fd(a, b_) + 24]),
                                       route=o.route, ref=ref.route, doc=o.doc.hex()[:4000], refdoc=ref.doc.hex()[:4000], kind=kind,
                                       equal_after_d6_substitution=d6))
                elif clock.mode == 'frozen' and o.doc != ref.doc:
                    counters['unseamed_clock_warning'] = counters.get('unseamed_clock_warning', 0) + 1
                else:
                    counters['documents_compared'] = counters.get('documents_compared', 0) + 1
        # exactly the named file, closed
        for o in outcomes:
            if o.route in ('named_stream', 'stream_svgz') and o.err is None and getattr(o, 'closed_by_save', False):
                viols.append(_viol('c12.files', 'save() closed the (named) stream handed in by the caller', route=o.route))
            if o.route in ('path', 'path_twice', 'svgz', 'cli', 'cli_svgz') and o.err is None:
                if sorted(o.files) != [o.extra]:
                    viols.append(_viol('c12.files', 'route %s created %s instead of exactly [%r]' % (o.route, sorted(o.files), o.extra), route=o.route))
                elif not fs.complete(o.extra):
                    viols.append(_viol('c12.files' if not o.faulted else 'c12.fault.complete',
                                       'route %s returned normally but %r was not closed successfully' % (o.route, o.extra), route=o.route))
            elif o.route in ('stream', 'named_stream', 'stream_svgz', 'png_uri', 'svg_uri', 'svg_inline', 'nonseekable', 'cli_terminal') and o.files:
                viols.append(_viol('c12.files', 'route %s created files %s' % (o.route, sorted(o.files)), route=o.route))
            if o.route == 'file_handle' and o.err is None and not o.still_open:
                viols.append(_viol('c12.files', 'save() closed the stream handed in by the caller', route=o.route))
            if o.route == 'svg_inline' and o.err is None and o.doc != o.ref:
                viols.append(_viol('c12.identical', 'svg_inline differs from the SVG saved with xmldecl=False, svgns=False, nl=False '
                                   '(first difference at byte %d)' % _fd(o.doc, o.ref), route=o.route, doc=o.doc.hex()[:4000], refdoc=o.ref.hex()[:4000]))
            if o.route == 'png_uri' and o.err is None and o.head != 'data:image/png;base64':
                viols.append(_viol('c12.identical', 'PNG data URI starts with %r' % o.head, route=o.route))
            if o.route == 'svg_uri' and o.err is None and not o.head.startswith('data:image/svg+xml'):
                viols.append(_viol('c12.identical', 'SVG data URI starts with %r' % o.head, route=o.route))
            if o.route == 'cli_terminal':
                if o.err is not None:
                    if not (fault_cfg and o.faulted):
                        viols.append(_viol('c12.terminal', 'CLI without output file failed: %s' % o.err, route=o.route))
                elif not o.faulted:
                    if o.proc['stdout'] != o.lib_stdout or o.proc['stdout'] != o.lib_stream:
                        viols.append(_viol('c12.terminal', 'CLI without output file printed %d characters, QRCode.terminal() %d, terminal(out=stream) %d'
                                           % (len(o.proc['stdout']), len(o.lib_stdout), len(o.lib_stream)), route=o.route))
                    else:
                        counters['terminal_compared'] = counters.get('terminal_compared', 0) + 1
            if o.route == 'unknown_ext':
                if o.results != ['ValueError'] * 3:
                    viols.append(_viol('c12.unknown_ext', 'unknown extension / kind / no extension gave %s instead of ValueError' % o.results, route=o.route))
                if o.files:
                    viols.append(_viol('c12.unknown_ext', 'refused save created files %s' % sorted(o.files), route=o.route))
    else:
        n = len(sym)
        refo = next((o for o in outcomes if o.route == 'seq_ref' and o.err is None), None)
        if refo is None:
            counters['options_refused_by_all_routes'] = 1
        for o in outcomes:
            if o.route not in ('seq_save', 'seq_cli') or refo is None:
                continue
            if o.err is not None:
                if fail_allowed(o) or (fault_cfg and o.faulted):
                    counters['routes_failed_under_fault'] = counters.get('routes_failed_under_fault', 0) + 1
                    continue
                viols.append(_viol('c12.identical', 'route %s failed: %s' % (o.route, o.err), route=o.route))
                continue
            if n > 1:
                want = ['%s-%02d-%02d.%s' % (o.extra, n, k, ext) for k in range(1, n + 1)]
            else:
                want = None
            got = sorted(o.files)
            if want is not None and got != sorted(want):
                viols.append(_viol('c12.files', 'sequence of %d saved to %s.%s wrote %s' % (n, o.extra, ext, got[:6]), route=o.route))
                continue
            if want is None:
                if len(got) != 1:
                    viols.append(_viol('c12.files', 'sequence of 1 wrote %s' % got, route=o.route))
                    continue
                want = got
            for k, p in enumerate(want):
                if not fs.complete(p):
                    viols.append(_viol('c12.files' if not o.faulted else 'c12.fault.complete', '%r was not closed successfully' % p, route=o.route))
                elif blank(fs.files[p]) != blank(refo.docs[k]):
                    viols.append(_viol('c12.fault.complete' if o.faulted else 'c12.identical',
                                       'file %r of route %s differs from symbol %d saved individually (first difference at byte %d)'
                                       % (p, o.route, k + 1, _fd(blank(fs.files[p]), blank(refo.docs[k]))), route=o.route, kind=kind))
                else:
                    counters['documents_compared'] = counters.get('documents_compared', 0) + 1
    leaked = fs.open_handles()
    if leaked:
        counters['handles_left_open'] = len(leaked)
    res['nontrivial'] = bool(counters.get('documents_compared') or counters.get('terminal_compared'))
    res['digest'] = core.digest(log)
    res['sample'] = _sample(sc, outcomes)
    return res


_OSERRORS = ('OSError', 'PermissionError', 'FileNotFoundError', 'BrokenPipeError', 'IsADirectoryError', 'UnsupportedOperation')


def _sample(sc, outcomes):
    return {'config': sc['config'], 'kind': sc['kind'], 'content': sc['content'] if len(str(sc['content'])) < 80 else '<long>',
            'mkw': sc['mkw'], 'skw': sc['skw'], 'routes': [[o.route, o.err, bool(o.faulted)] for o in outcomes],
            'clock': sc['clock']['mode'], 'faults': sc['faults'], 'argv': next((o.argv for o in outcomes if getattr(o, 'argv', None)), None)}


def _fd(a, b):
    for i, (x, y) in enumerate(zip(a, b)):
        if x != y:
            return i
    return min(len(a), len(b))


def signature(sc, v):
    return (v['detail'].get('route'), sc['kind'] if v['clause'] in ('c12.identical',) else None, sc['config'])


def minimise(sc, viol, fails):
    cur = dict(sc)
    route = viol['detail'].get('route')
    ref = viol['detail'].get('ref')
    # fewer routes
    keep = [r for r in cur['routes'] if r in (route, ref, 'stream', 'seq_ref')]
    for cand_routes in ([r for r in keep if r in (route, ref)] or keep, keep):
        cand = dict(cur, routes=list(dict.fromkeys(cand_routes)))
        if cand['routes'] != cur['routes'] and fails(cand):
            cur = cand
            break
    # fewer faults
    if cur['faults']:
        fl = core.ddmin_list(cur['faults'], lambda f: fails(dict(cur, faults=f)), max_tests=20)
        cur = dict(cur, faults=fl)
        if not fl:
            cand = dict(cur, config='fault_free')
            if fails(cand):
                cur = cand
    # frozen clock, default buffer
    for patch in ({'clock': dict(cur['clock'], mode='frozen')}, {'bufsize': 8192}, {'terminal': {'border': None, 'compact': False}}):
        cand = dict(cur, **patch)
        if fails(cand):
            cur = cand
    # fewer serialiser / symbol options
    for key in ('skw', 'mkw'):
        kw = dict(cur[key])
        for k in list(kw):
            kw2 = {x: y for x, y in kw.items() if x != k}
            cand = dict(cur, **{key: kw2})
            if fails(cand):
                kw = kw2
                cur = cand
    # shorter content
    content = core.dec(cur['content'])
    if isinstance(content, str):
        while len(content) > 1:
            c2 = content[:max(1, len(content) // 2)]
            cand = dict(cur, content=core.enc(c2))
            if fails(cand):
                cur, content = cand, c2
            else:
                break
    return cur


def known(sc, viol):
    return known_mod.match(PROP, sc, viol)


def coverage_rule():
    return ('one run = one symbol (or Structured Append sequence) and one serialiser option set, written through all routes that '
            'exist for its kind (stream, path with mixed-case extension, named stream, caller-opened file, data URIs, svg_inline, '
            '.svgz, CLI -o, CLI terminal, sequence save, unknown extension) in a seeded order on one simulated file system, clock '
            '(frozen or jumping) and process; 35% of the runs carry an I/O fault plan (open/write/close errors, short writes, '
            'non-seekable sink); distinct = distinct event-log digest (every open/write/close of every route); non-trivial = at least '
            'one pair of routes produced documents that were compared')


def tier_params(tier):
    if tier == 'quick':
        return {'runs': 3000, 'run_timeout': 300.0, 'wall_cap': 1500}
    return {'budget_s': 600, 'min_runs': 3000, 'run_timeout': 600.0, 'wall_cap': 3000}


def finish_coverage(cov, counters):
    cov['faults_fired'] = counters.get('faults_fired', {})
    cov['sim_clock_span_s'] = counters.get('sim_clock_span_s', 0)
    cov['routes_run'] = counters.get('routes', {})
