"""Serialiser option sets, symbol-creation option sets and the CLI flag <-> keyword table.

The table is /verif's own reading of `segno --help` / cli.py at the pinned commit
(DESIGN.md §10.4); it is what "the corresponding flags" in C12 means.
"""
from . import gen

KINDS = ('svg', 'png', 'eps', 'txt', 'pdf', 'ans', 'pbm', 'pam', 'ppm', 'tex', 'xbm', 'xpm')
BINARY_KINDS = ('svg', 'png', 'pdf', 'pbm', 'pam', 'ppm')
VECTOR_KINDS = ('svg', 'eps', 'pdf', 'tex')
TIMESTAMPED = ('eps', 'pdf', 'tex')
MODULE_COLOR_KEYS = ('finder_dark', 'finder_light', 'data_dark', 'data_light', 'version_dark', 'version_light',
                     'format_dark', 'format_light', 'alignment_dark', 'alignment_light', 'timing_dark',
                     'timing_light', 'separator', 'dark_module', 'quiet_zone')
COLORFUL_KINDS = ('svg', 'png', 'ppm')

RGB_COLORS = ['red', 'green', 'navy', 'DarkBlue', '#0f0', '#123456', '#abcdef', '#000', '#fff', 'black', 'white',
              '#FFCC00', 'yellow']
ALPHA_COLORS = ['#12345680', '#ff000040', '#0000ffcc', '#abcd', '#0000ffff', '#f00f', '#ff0000fe', '#00000000', '#FFFFFFFF']
TUPLE_COLORS = [(255, 0, 0), (0, 0, 0), (12, 34, 56), (255, 255, 255)]
TUPLE_ALPHA = [(255, 0, 0, 128), (0, 128, 0, 64)]

# keyword -> flag (value-taking unless listed in FLAG_ONLY)
SER_FLAGS = {
    'scale': '--scale', 'border': '--border', 'dark': '--dark', 'light': '--light',
    'finder_dark': '--finder-dark', 'finder_light': '--finder-light', 'separator': '--separator',
    'data_dark': '--data-dark', 'data_light': '--data-light', 'timing_dark': '--timing-dark',
    'timing_light': '--timing-light', 'alignment_dark': '--align-dark', 'alignment_light': '--align-light',
    'quiet_zone': '--quiet-zone', 'dark_module': '--dark-module', 'format_dark': '--format-dark',
    'format_light': '--format-light', 'version_dark': '--version-dark', 'version_light': '--version-light',
    'title': '--title', 'desc': '--desc', 'svgid': '--svgid', 'svgclass': '--svgclass', 'lineclass': '--lineclass',
    'unit': '--unit', 'svgversion': '--svgversion', 'encoding': '--svgencoding', 'dpi': '--dpi',
}
# keyword -> (flag, value for which the flag is given)
SER_SWITCHES = {'xmldecl': ('--no-xmldecl', False), 'svgns': ('--no-namespace', False), 'nl': ('--no-newline', False),
                'omitsize': ('--no-size', True), 'draw_transparent': ('--draw-transparent', True)}
NO_CLI_FLAG = ('compresslevel', 'plain', 'name', 'url')


def ser_argv(kw):
    """Serialiser keywords -> CLI arguments. Raises KeyError for a keyword without flag."""
    argv = []
    kw = dict(kw)
    if kw.get('svgclass', 0) is None and kw.get('lineclass', 0) is None:
        argv.append('--no-classes')
        del kw['svgclass'], kw['lineclass']
    for k, v in kw.items():
        if k in SER_SWITCHES:
            flag, on = SER_SWITCHES[k]
            if v == on:
                argv.append(flag)
            continue
        flag = SER_FLAGS[k]
        if v is None:
            if k in ('dark', 'light') or k in MODULE_COLOR_KEYS:
                v = 'transparent'
            else:
                raise KeyError('%s=None has no CLI spelling' % k)
        argv.append('%s=%s' % (flag, v))
    return argv


def make_argv(mkw, seq=False):
    """Symbol-creation keywords -> CLI arguments (content not included)."""
    argv = []
    for k, v in mkw.items():
        if k == 'version':
            argv.append('--version=%s' % v)
        elif k == 'error':
            argv.append('--error=%s' % ('-' if v is None else v))
        elif k == 'mode':
            argv.append('--mode=%s' % v)
        elif k == 'encoding':
            argv.append('--encoding=%s' % v)
        elif k == 'mask':
            argv.append('--pattern=%s' % v)
        elif k == 'boost_error':
            if not v:
                argv.append('--no-error-boost')
        elif k == 'micro':
            if v is True:
                argv.append('--micro')
            elif v is False:
                argv.append('--no-micro')
            else:
                raise KeyError('micro=None has no CLI spelling unless a Micro version is named')
        elif k == 'symbol_count':
            argv.append('--symbol-count=%s' % v)
        else:
            raise KeyError(k)
    if seq:
        argv.append('--seq')
    return argv


def cli_equivalent_make_kw(mkw, seq=False):
    """What the CLI passes to make()/make_sequence() for the flags of make_argv(mkw): the CLI always
    passes micro (default False; None if a Micro version is named without --micro)."""
    kw = dict(mkw)
    if not seq:
        v = str(kw.get('version', '')).upper()
        if kw.get('micro') is not True:
            # cli.parse: without --micro a named Micro version turns micro into None (even with --no-micro)
            kw['micro'] = None if v in ('M1', 'M2', 'M3', 'M4') else False
    return kw


# ----------------------------------------------------------------------------------------
def _color(rng, kind, cli, allow_none=True):
    pool = list(RGB_COLORS)
    if kind in ('svg', 'png'):
        pool += ALPHA_COLORS
    if not cli:
        pool += TUPLE_COLORS
        if kind in ('svg', 'png'):
            pool += TUPLE_ALPHA
    if allow_none and kind in ('svg', 'png', 'eps', 'pdf') and rng.random() < 0.15:
        return None
    return rng.choice(pool)


def gen_ser_opts(rng, kind, cli):
    """Seeded serialiser options for `kind`; if cli, only options/values that have a CLI spelling."""
    kw = {}
    if kind not in ('txt', 'ans'):
        if rng.random() < 0.7:
            if kind in VECTOR_KINDS and rng.random() < 0.4:
                kw['scale'] = rng.choice((0.5, 1.5, 2.25, 3.0, 10.5))
            else:
                kw['scale'] = rng.randint(1, 6) if rng.random() < 0.93 else rng.choice((8, 10, 16))
        if cli and isinstance(kw.get('scale'), float) and kw['scale'] == int(kw['scale']):
            kw['scale'] = int(kw['scale'])  # the CLI turns integral floats into int (cli._convert_scale); same value, same flag
    if rng.random() < 0.5:
        kw['border'] = rng.choice((0, 0, 1, 2, 4, 5, 7, 10))
    if kind in ('svg', 'png', 'eps', 'pdf', 'pam', 'ppm', 'xpm', 'tex'):
        if rng.random() < 0.5:
            kw['dark'] = _color(rng, kind, cli, allow_none=kind in ('svg', 'png'))
        if kind != 'tex' and rng.random() < 0.5:
            kw['light'] = _color(rng, kind, cli, allow_none=kind in ('svg', 'png', 'eps', 'pdf', 'xpm'))
    if kind == 'tex' and 'dark' in kw and not isinstance(kw['dark'], str):
        del kw['dark']
    if kind == 'txt':
        if rng.random() < 0.3:
            kw['dark'] = rng.choice(('X', '#', '1'))
        if rng.random() < 0.3:
            kw['light'] = rng.choice((' ', '.', '0'))
    if kind in COLORFUL_KINDS:
        for k in MODULE_COLOR_KEYS:
            if rng.random() < 0.12:
                kw[k] = _color(rng, kind, cli, allow_none=kind != 'ppm')
    if kind == 'svg':
        for k, vals in (('xmldecl', (False,)), ('svgns', (False,)), ('nl', (False,)), ('omitsize', (True,)),
                        ('draw_transparent', (True,))):
            if rng.random() < 0.25:
                kw[k] = rng.choice(vals)
        if rng.random() < 0.35:
            kw['title'] = rng.choice(('T', 'A <b> & "c"', 'Ünï', "it's", '5 €', '日本 QR'))
        if rng.random() < 0.2:
            kw['desc'] = rng.choice(('D', 'x < y', '', 'prix: 5 €'))
        if rng.random() < 0.2:
            kw['svgid'] = rng.choice(('i1', 'my-id'))
        if rng.random() < 0.2:
            kw['svgclass'] = rng.choice(('c1', 'a b', ''))
        if rng.random() < 0.2:
            kw['lineclass'] = rng.choice(('l1', ''))
        if rng.random() < 0.1:
            kw['svgclass'] = None
            kw['lineclass'] = None
        if 'omitsize' not in kw and rng.random() < 0.2:
            kw['unit'] = rng.choice(('mm', 'cm', 'px'))
        if rng.random() < 0.2:
            kw['svgversion'] = rng.choice((1.1, 1.2, 2.0))
        if rng.random() < 0.25:
            kw['encoding'] = rng.choice(('utf-8', 'iso-8859-1', 'ascii', 'UTF-8', 'iso-8859-15', 'utf-16'))
    if kind == 'png':
        if rng.random() < 0.3:
            kw['dpi'] = rng.choice((72, 96, 300, 600))
        if not cli and rng.random() < 0.3:
            kw['compresslevel'] = rng.choice((0, 1, 6, 9))
    if kind == 'pdf' and not cli and rng.random() < 0.3:
        kw['compresslevel'] = rng.choice((0, 1, 9))
    if kind == 'pbm' and not cli and rng.random() < 0.4:
        kw['plain'] = True
    if kind in ('xbm', 'xpm') and not cli and rng.random() < 0.3:
        kw['name'] = rng.choice(('qr', 'code_1'))
    if kind == 'tex':
        if rng.random() < 0.3:
            kw['unit'] = rng.choice(('mm', 'cm', 'pt'))
        if not cli and rng.random() < 0.3:
            kw['url'] = 'https://example.org/?a=1&b=2'
    return kw


def gen_symbol(rng, cli, seq=False, maxlen=40):
    """Returns (content, make-kw). With cli the content is a str that argparse takes as one positional."""
    kw = {}
    mode = rng.choice(('numeric', 'alphanumeric', 'byte', 'byte', 'kanji', 'hanzi'))
    n = rng.randint(1, maxlen)
    if mode == 'byte':
        content = gen.text(rng, 'byte', n, rng.choice(('ascii', 'latin1')) if cli else None)
        if not cli and rng.random() < 0.2:
            content = ''.join(rng.choice(gen.UNI + gen.ASCII) for _ in range(n))
    else:
        content = gen.text(rng, mode, n if mode not in ('kanji', 'hanzi') else max(1, n // 3))
        if mode == 'hanzi':
            kw['mode'] = 'hanzi'
    if cli and isinstance(content, str):
        content = content.strip() or 'A'
        if content[0] == '-':
            content = 'A' + content[1:]
    if not cli and mode == 'numeric' and rng.random() < 0.3:
        content = int(content.lstrip('0') or '0')
    if seq:
        if rng.random() < 0.6:
            kw['symbol_count'] = rng.randint(1, min(6 if rng.random() < 0.8 else 16, len(str(content))))
        else:
            kw['version'] = rng.randint(1, 3)
    else:
        r = rng.random()
        if r < 0.3:
            kw['micro'] = False
        elif r < 0.45:
            kw['micro'] = True
        elif cli:
            kw['micro'] = rng.choice((True, False))
        if rng.random() < 0.25 and kw.get('micro') is not True:
            kw['version'] = rng.randint(1, 12)
        elif rng.random() < 0.15 and kw.get('micro') is not False and mode != 'hanzi':
            # Micro versions by name, in both letter cases (the CLI turns micro into None for them)
            kw['version'] = rng.choice(('M1', 'M2', 'M3', 'M4', 'm2', 'm3', 'm4'))
            if rng.random() < 0.6:
                kw.pop('micro', None)   # no --micro flag: the version name alone must be enough
    if kw.get('mode') == 'hanzi' and kw.get('micro') is True:
        kw['micro'] = False
    if rng.random() < 0.4:
        kw['error'] = rng.choice('LMQH')
    if rng.random() < 0.3:
        kw['boost_error'] = False
    if rng.random() < 0.3:
        kw['mask'] = rng.randrange(4) if (kw.get('micro') is True or rng.random() < 0.5) else rng.randrange(8)
    return content, kw


SHORT_ALIASES = {'--version': '-v', '--error': '-e', '--mode': '-m', '--pattern': '-p', '--symbol-count': '-sc',
                 '--border': '-b', '--scale': '-s', '--output': '-o'}


def stylize(argv, style):
    """Re-spells a CLI argument list without changing its meaning, deterministically from the integer `style`:
    '--flag=value' / '--flag value' / short alias, 'transparent' / 'trans', and the content (last element) split into
    several positional words (the CLI joins them with one blank). style 0 = unchanged."""
    if not style:
        return list(argv)
    import random
    rng = random.Random(style)
    out = []
    flags, content = list(argv[:-1]), argv[-1]
    for a in flags:
        if a.startswith('--') and '=' in a:
            flag, val = a.split('=', 1)
            if val == 'transparent' and rng.random() < 0.5:
                val = 'trans'
            r = rng.random()
            if val.startswith('-') or r < 0.4:
                out.append('%s=%s' % (flag, val))
            elif r < 0.7 or flag not in SHORT_ALIASES:
                out += [flag, val]
            else:
                out += [SHORT_ALIASES[flag], val]
        else:
            out.append(a)
    words = [content]
    if isinstance(content, str) and ' ' in content.strip() and rng.random() < 0.6:
        w = content.split(' ')
        if all(x and not x.startswith('-') for x in w):
            words = w
    return out + words
